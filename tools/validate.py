#!/usr/bin/env python3
"""Validate MANIFEST.json and every evidence file against the schemas (uses the tooling venv)."""
import json, sys, glob, os
import jsonschema
ROOT = os.path.dirname(os.path.dirname(os.path.abspath(__file__)))
ok = True
jsonschema.validate(json.load(open(ROOT + "/MANIFEST.json")), json.load(open("/root/.vp/MANIFEST.schema.json")))
print("MANIFEST ok")
es = json.load(open("/root/.vp/EVIDENCE.schema.json"))
for f in sorted(glob.glob(ROOT + "/evidence/*.json")):
    try:
        jsonschema.validate(json.load(open(f)), es)
        print(os.path.basename(f), "ok")
    except Exception as ex:
        ok = False
        print(os.path.basename(f), "INVALID", str(ex)[:300])
sys.exit(0 if ok else 1)
