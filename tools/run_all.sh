#!/usr/bin/env bash
# tools/run_all.sh <quick|thorough> [ids...]  — run the registered checks one after the other
TIER=${1:-quick}; shift
IDS=${@:-C01 C02 C03 C04 C05 C06 C07 C08 C09 C10 C11 C12 C13 C14 C15 C16 C17 C18 C19 C20}
cd "$(dirname "$0")/.."
rc_all=0
for p in $IDS; do
  s=$(date +%s)
  out=$(bin/check $p $TIER 2>&1); rc=$?
  echo "$out" | grep -E "^\[check\]|VIOLATION|INCONCLUSIVE|KNOWN-FINDING" | cut -c1-220
  echo "   -> $p rc=$rc ($(( $(date +%s) - s ))s)"
  [ $rc -ne 0 ] && rc_all=1
done
exit $rc_all
