#!/usr/bin/env python3
"""Print the first differing transcript event between build variants (C19 localisation).
usage: c19_diff.py <results_dir> <variant>..."""
import sys
res, vs = sys.argv[1], sys.argv[2:]
texts = {}
for v in vs:
    try:
        texts[v] = [l for l in open("%s/C19.%s.digest" % (res, v)) if l.startswith("event ")]
    except OSError:
        pass
vs = [v for v in vs if v in texts]
if vs:
    base = vs[0]
    for v in vs[1:]:
        for a, b in zip(texts[base], texts[v]):
            if a != b:
                print("[check] first differing kept event, %s vs %s:\n    %s    %s" % (base, v, a[:400], b[:400]))
                break
