#!/usr/bin/env bash
# tools/try_mutant.sh <patch.diff> <PROP>...   apply a seeded change to /repo, run the quick checks
# of the given properties (r-def and d-def through bin/check), always undo the change.
set -u
PATCH="$1"; shift
ROOT="$(cd "$(dirname "$0")/.." && pwd)"
cd /repo
if [ -n "$(git status --porcelain -- src)" ]; then echo "/repo/src not clean"; exit 2; fi
git apply "$PATCH" || { echo "patch does not apply"; exit 2; }
trap 'git -C /repo checkout -- . ; echo "[try_mutant] /repo restored"' EXIT
cd "$ROOT"
for P in "$@"; do
  VERIF_SEED="${VERIF_SEED:-0}" bin/check "$P" "${TIER:-quick}" 2>&1 | grep -E "^\[check\]|VIOLATION|INCONCLUSIVE|KNOWN|^  C" | cut -c1-260 | head -${LINES_MAX:-8}
  echo "[try_mutant] $P rc=${PIPESTATUS[0]}"
done
