#!/usr/bin/env python3
"""Extract validation vectors for the harness's reference model from material in the
repository that is NOT the code under test:

  * the reference functions of python/gen_code_tables.py (executed here for all
    values < 4096, both bit orders),
  * the literal expected words of tests/test_codes_regression.rs,
  * the literal expected words in the unit tests of src/codes/omega.rs and src/codes/pi.rs.

Output format, one vector per line:
    <source> <code> <param> <value> <BE|LE> <bits in stream order>
Sources whose name ends in "64" give a whole zero-padded 64-bit word.
"""
import ast
import re
import sys

repo = sys.argv[1] if len(sys.argv) > 1 else "/repo"
out = open(sys.argv[2], "w") if len(sys.argv) > 2 else sys.stdout


def emit(source, code, param, value, be, bits):
    out.write("%s %s %d %d %s %s\n" % (source, code, param, value, "BE" if be else "LE", bits))


# ---- python reference functions -------------------------------------------------------------
src = open(repo + "/python/gen_code_tables.py").read()
tree = ast.parse(src)
ns = {}
exec("from math import log2, ceil, floor\nimport os", ns)
wanted = re.compile(r"^(read|write|len)_(fixed|unary|gamma|delta|minimal_binary|zeta)$")
for node in tree.body:
    if isinstance(node, ast.FunctionDef) and wanted.match(node.name):
        exec(compile(ast.Module([node], []), "gen_code_tables.py", "exec"), ns)


def stream(s, be):
    # LE strings of the generator have the first stream bit rightmost
    return s if be else s[::-1]


N = 4096
for be in (True, False):
    for v in range(300):
        emit("py", "unary", 0, v, be, stream(ns["write_unary"](v, "", be), be))
    for v in range(N):
        emit("py", "gamma", 0, v, be, stream(ns["write_gamma"](v, "", be), be))
        emit("py", "delta", 0, v, be, stream(ns["write_delta"](v, "", be), be))
        for k in (2, 3, 4, 5, 7):  # k=1 hits a zero-width write_fixed quirk of the generator
            emit("py", "zeta", k, v, be, stream(ns["write_zeta"](v, k, "", be), be))
    for u in list(range(2, 41)) + [63, 64, 65, 100, 127, 128, 129, 1000, 1023, 1024, 1025]:
        for v in range(u):
            emit("py", "minbin", u, v, be, stream(ns["write_minimal_binary"](v, u, "", be), be))


# ---- regression test literals ----------------------------------------------------------------
def word_be(x):
    return format(x, "064b")


def word_le(x):
    return format(x, "064b")[::-1]


reg = open(repo + "/tests/test_codes_regression.rs").read()
pat = re.compile(
    r"\|b: &mut Backend<BE>\| b\.write_(\w+)\(([^)]*)\),\s*(0b[01_]+),\s*"
    r"\|b: &mut Backend<LE>\| b\.write_\w+\([^)]*\),\s*(0b[01_]+),"
)
count = 0
for m in pat.finditer(reg):
    name, args, be_lit, le_lit = m.groups()
    args = [a.strip() for a in args.split(",")]
    if name == "unary" and not args[0].isdigit():
        continue
    value = int(args[0])
    if name in ("gamma", "delta", "unary"):
        code, param = name, 0
    elif name == "zeta":
        code, param = "zeta", int(args[1])
    elif name == "zeta3":
        code, param = "zeta", 3
    else:
        continue
    emit("regr64", code, param, value, True, word_be(int(be_lit.replace("_", ""), 2)))
    emit("regr64", code, param, value, False, word_le(int(le_lit.replace("_", ""), 2)))
    count += 1
if count < 30:
    sys.stderr.write("warning: only %d regression vectors extracted\n" % count)

# ---- omega unit-test literals ------------------------------------------------------------------
om = open(repo + "/src/codes/omega.rs").read()
m = re.search(r"for \(value, expected_be, expected_le\) in \[(.*?)\] \{", om, re.S)
if m:
    body = m.group(1)
    for t in re.finditer(r"\(\s*([\d_]+),\s*((?:0b[01_]+|0)(?:\s*<<\s*\(64 - \d+\))?),\s*(0b[01_]+|0),?\s*\)", body, re.S):
        value = int(t.group(1).replace("_", ""))
        be_word = eval(t.group(2)) & ((1 << 64) - 1)
        le_word = eval(t.group(3))
        emit("omega64", "omega", 0, value, True, word_be(be_word))
        emit("omega64", "omega", 0, value, False, word_le(le_word))

# ---- pi unit-test literals ---------------------------------------------------------------------
pi = open(repo + "/src/codes/pi.rs").read()
m = re.search(r"for \(k, value, expected\) in \[(.*?)\] \{", pi, re.S)
if m:
    for t in re.finditer(r"\(\s*(\d+),\s*(\d+),\s*(0b[01_]+\s*<<\s*\(64 - \d+\))\s*\)", m.group(1)):
        emit("pi64", "pi", int(t.group(1)), int(t.group(2)), True, word_be(eval(t.group(3))))
