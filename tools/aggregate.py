#!/usr/bin/env python3
"""Merge the per-variant result files of one property into /verif/evidence/<ID>.json,
apply /verif/known_findings.json, write replay files, print the verdict lines and
return the exit code (0 held / 1 violation / 2 inconclusive).

usage: aggregate.py <ID> <tier> <seed> <wall_s> <results_dir> <variant>...
"""
import glob
import hashlib
import json
import os
import sys

import traceback


def main():
    ROOT = os.path.dirname(os.path.dirname(os.path.abspath(__file__)))
    pid, tier, seed, wall, res = sys.argv[1], sys.argv[2], int(sys.argv[3]), float(sys.argv[4]), sys.argv[5]
    variants = sys.argv[6:]

    meta = json.load(open(os.path.join(ROOT, "tools", "props_meta.json")))[pid]
    known = json.load(open(os.path.join(ROOT, "known_findings.json")))
    known_sigs = {k["signature"]: k for k in known["findings"] if k["property"] == pid and k["status"] == "known"}

    inconclusive = []
    runs = {}
    for v in variants:
        path = os.path.join(res, "%s.%s.json" % (pid, v))
        rc_path = os.path.join(res, "%s.%s.rc" % (pid, v))
        rc = None
        if os.path.exists(rc_path):
            try:
                rc = int(open(rc_path).read().strip())
            except ValueError:
                rc = None
        if not os.path.exists(path):
            why = "watchdog" if rc in (124, 137) else "no-result(rc=%s)" % rc
            inconclusive.append("%s:%s" % (v, why))
            continue
        try:
            runs[v] = json.load(open(path))
        except Exception as ex:  # noqa
            inconclusive.append("%s:unreadable-result" % v)
    # extra stages (sanitizers / Miri / fuzz) write <ID>.x-<stage>.json
    for path in sorted(glob.glob(os.path.join(res, "%s.x-*.json" % pid))):
        name = os.path.basename(path)[len(pid) + 1:-5]
        try:
            runs[name] = json.load(open(path))
        except Exception:
            inconclusive.append("%s:unreadable-result" % name)

    evaluations = 0
    distinct = 0
    samples = []
    violations = {}
    per_variant = {}
    exhaustive_parts = []
    notes = []
    counters = {}
    cover = {}
    for v, r in runs.items():
        evaluations += r.get("evaluations", 0)
        distinct = max(distinct, r.get("distinct_nontrivial", 0))
        for s in r.get("samples", []):
            if len(samples) < 8 and s not in samples:
                samples.append(s)
        per_variant[v] = {
            "evaluations": r.get("evaluations", 0),
            "distinct_nontrivial": r.get("distinct_nontrivial", 0),
            "wall_s": r.get("wall_s", 0),
            "violations": len(r.get("violations", [])),
        }
        for e in r.get("exhaustive_parts", []):
            if e not in exhaustive_parts:
                exhaustive_parts.append(e)
        for n in r.get("notes", []):
            if n not in notes:
                notes.append(n)
        for k, val in r.get("counters", {}).items():
            counters[k] = counters.get(k, 0) + val
        for k, val in r.get("cover", {}).items():
            cur = cover.get(k)
            if isinstance(val, list) and (cur is None or isinstance(cur, set)):
                cover.setdefault(k, set()).update(val)
            else:
                # large sets are reported by size only: keep the largest size seen
                a = len(cur) if isinstance(cur, set) else (cur or 0)
                b = len(val) if isinstance(val, list) else val
                cover[k] = max(a, b)
        for i in r.get("inconclusive", []):
            inconclusive.append("%s:%s" % (v, i))
        for viol in r.get("violations", []):
            sig = viol["signature"]
            if sig not in violations:
                violations[sig] = dict(viol, variant=v, variants=[v])
            else:
                violations[sig]["count"] += viol["count"]
                violations[sig]["variants"].append(v)

    # C19: the per-section transcript hashes must be identical in every build variant
    for k, val in list(cover.items()):
        if k.startswith("digest/") and isinstance(val, set) and len(val) > 1:
            per = {}
            for v, r in runs.items():
                h = r.get("cover", {}).get(k)
                if isinstance(h, list) and h:
                    per.setdefault(h[0], []).append(v)
            sig = "%s|transcript-differs-between-builds|%s" % (pid, k[len("digest/"):].split("/")[0])
            if sig not in violations:
                violations[sig] = {
                    "signature": sig,
                    "what": "observable results of section %s differ between builds: %s" % (k, "; ".join("%s: %s" % (",".join(vs), "%016x" % h) for h, vs in per.items())),
                    "case": "part=digest section=%s" % k,
                    "count": 1,
                    "variant": sorted(runs.keys())[0],
                    "variants": sorted(runs.keys()),
                }
            else:
                violations[sig]["count"] += 1

    cover_out = {}
    for k, val in cover.items():
        if isinstance(val, set):
            cover_out[k] = {"size": len(val), "items": sorted(val) if len(val) <= 140 else None}
        else:
            cover_out[k] = {"size": val}

    new_violations = []
    known_hits = []
    os.makedirs(os.path.join(ROOT, "replays", pid), exist_ok=True)
    for sig, viol in sorted(violations.items()):
        if sig in known_sigs:
            known_hits.append((known_sigs[sig], viol))
            continue
        h = hashlib.sha1(sig.encode()).hexdigest()[:12]
        path = os.path.join(ROOT, "replays", pid, h + ".json")
        json.dump(
            {
                "property": pid,
                "signature": sig,
                "what": viol["what"],
                "case": viol["case"],
                "variant": viol["variant"],
                "variants": viol["variants"],
                "count": viol["count"],
                "seed": seed,
                "tier": tier,
            },
            open(path, "w"),
            indent=1,
        )
        new_violations.append((sig, path, viol))

    thresholds = meta.get("min_evaluations", {})
    min_eval = thresholds.get(tier, 1)
    if runs and evaluations < min_eval:
        inconclusive.append("too-few-evaluations(%d<%d)" % (evaluations, min_eval))

    evidence = {
        "property_id": pid,
        "tier": tier,
        "seed": seed,
        "level": meta["level"],
        "coverage": {
            "evaluations": evaluations,
            "distinct_nontrivial": distinct,
            "rule": meta["rule"],
            "samples": samples if samples else ["(no sample recorded)"],
            "exhaustive": bool(exhaustive_parts) and meta.get("exhaustive_claim", False),
            "exhaustive_parts": exhaustive_parts,
            "variants": per_variant,
            "counters": counters,
            "cover": cover_out,
            "notes": notes,
            "explanation": meta.get("explanation", "") or ("'exhaustive' refers only to the finite sub-spaces listed in exhaustive_parts, which this run enumerated completely; "
                                                          "everything else (64-bit values, long histories, schedules) is sampled as described in 'rule'. Verdict: held on what was observed."),
        },
        "assumptions": meta.get("assumptions", []),
        "wall_s": round(wall, 2),
        "violations": len(new_violations),
        "known_findings": [k["signature"] for k, _ in known_hits],
        "inconclusive": inconclusive,
        "verdict": "violated" if new_violations else ("inconclusive" if inconclusive else "held-on-what-was-observed"),
    }
    json.dump(evidence, open(os.path.join(ROOT, "evidence", pid + ".json"), "w"), indent=1)

    for k, viol in known_hits:
        print("KNOWN-FINDING: property=%s %s [%s]" % (pid, k["what_fails"], k["signature"]))
    print(
        "[check] %s %s seed=%d: %d evaluations, %d distinct non-trivial cases, variants=%s, violations=%d, known=%d, wall=%.1fs"
        % (pid, tier, seed, evaluations, distinct, ",".join(runs.keys()), len(new_violations), len(known_hits), wall)
    )
    if new_violations:
        for sig, path, viol in new_violations:
            print("  %s (x%d, %s): %s" % (sig, viol["count"], ",".join(viol["variants"]), viol["what"][:300]))
        for sig, path, viol in new_violations:
            print("VIOLATION property=%s replay=%s" % (pid, path))
        sys.exit(1)
    if inconclusive:
        print("INCONCLUSIVE property=%s reason=%s" % (pid, ";".join(inconclusive)[:500]))
        sys.exit(2)
    sys.exit(0)


try:
    main()
except SystemExit:
    raise
except Exception:  # a bug of the aggregator must never look like a verdict
    traceback.print_exc()
    print("INCONCLUSIVE property=%s reason=aggregator-error" % (sys.argv[1] if len(sys.argv) > 1 else "?"))
    sys.exit(2)
