#!/usr/bin/env python3
"""Automatic first-order mutation campaign against the monitors (development aid, not a registered check).

For a sample of syntactic mutants of the library sources (relational / arithmetic / shift / constant /
boolean operator replacement, endianness-call swap, statement deletion) it builds the harness (release
profile only) against a scratch worktree with the mutant applied, and runs the quick tier of the
properties anchored in the mutated file. A mutant that no monitor reports is either equivalent or a
gap in the monitors; those are listed for manual inspection (and only those are run through the
repository's own test suite, to see whether the pinned tests would have caught them).

usage: mutation_campaign.py <workdir> <n_per_file> <seed> [file...]
Everything lives under <workdir> (a scratch directory outside /repo and /verif); /repo is not touched.
"""
import json
import os
import random
import re
import subprocess
import sys
import time

work, n_per_file, seed = sys.argv[1], int(sys.argv[2]), int(sys.argv[3])
only = sys.argv[4:]
WT = os.path.join(work, "repo")
H = os.path.join(work, "harness")
LOG = os.path.join(work, "log.jsonl")
env = dict(os.environ, CARGO_NET_OFFLINE="true")

FILES = {
    "src/impls/buf_bit_writer.rs": ["C01", "C06", "C08", "C12"],
    "src/impls/buf_bit_reader.rs": ["C02", "C07", "C08", "C09", "C12", "C05"],
    "src/impls/bit_reader.rs": ["C02", "C07", "C09", "C12", "C03"],
    "src/impls/mem_word_reader.rs": ["C13", "C07", "C09"],
    "src/impls/mem_word_writer.rs": ["C13", "C07", "C01"],
    "src/impls/word_adapter.rs": ["C11", "C07", "C09"],
    "src/traits/bits.rs": ["C08", "C05"],
    "src/codes/gamma.rs": ["C03", "C04", "C06", "C05"],
    "src/codes/delta.rs": ["C03", "C04", "C06", "C05"],
    "src/codes/omega.rs": ["C03", "C04", "C06"],
    "src/codes/zeta.rs": ["C03", "C04", "C06", "C05"],
    "src/codes/minimal_binary.rs": ["C03", "C04", "C06"],
    "src/codes/pi.rs": ["C03", "C04", "C06"],
    "src/codes/golomb.rs": ["C03", "C04", "C06"],
    "src/codes/rice.rs": ["C03", "C04", "C06"],
    "src/codes/exp_golomb.rs": ["C03", "C04", "C06"],
    "src/codes/vbyte.rs": ["C18", "C03", "C04", "C06"],
    "src/codes/mod.rs": ["C17"],
    "src/codes/params.rs": ["C03", "C05"],
    "src/dispatch/codes.rs": ["C10", "C16"],
    "src/dispatch/static.rs": ["C10", "C16"],
    "src/dispatch/dynamic.rs": ["C10"],
    "src/dispatch/factory.rs": ["C10"],
    "src/utils/count.rs": ["C14"],
    "src/utils/dbg_codes.rs": ["C14"],
    "src/utils/stats.rs": ["C15"],
    "src/utils/find_change.rs": ["C20"],
    "src/utils/implied.rs": ["C20"],
}

OPS = [
    (r"<=", "<"), (r">=", ">"), (r" < ", " <= "), (r" > ", " >= "), (r" < ", " > "),
    (r"==", "!="), (r"!=", "=="),
    (r"\+ 1\b", "+ 0"), (r"- 1\b", "- 0"), (r"\+ 1\b", "+ 2"), (r"- 1\b", "+ 1"),
    (r" \+ ", " - "), (r" - ", " + "), (r"\+=", "-="), (r"-=", "+="),
    (r"<<", ">>"), (r">>", "<<"),
    (r"\b64\b", "63"), (r"\b64\b", "65"), (r"\b7\b", "8"), (r"\b0x7F\b", "0xFF"), (r"\b1_u64\b", "2_u64"),
    (r"&&", "||"), (r"\|\|", "&&"),
    (r"to_be\(\)", "to_le()"), (r"to_le\(\)", "to_be()"),
    (r"\bBITS\b", "BITS - 1"),
    (r"rotate_right", "rotate_left"), (r"leading_zeros", "trailing_zeros"), (r"trailing_zeros", "leading_zeros"),
    (r"wrapping_sub", "wrapping_add"),
    (r"\.min\(", ".max("),
]


def candidate_lines(path):
    lines = open(os.path.join(WT, path)).read().split("\n")
    out = []
    for i, l in enumerate(lines):
        if "#[cfg(test)]" in l:
            break
        s = l.strip()
        if not s or s.startswith("//") or s.startswith("#") or s.startswith("*") or s.startswith("/*"):
            continue
        if "debug_assert" in s or "eprintln" in s or s.startswith("use ") or "fn " in s and "{" not in s:
            continue
        out.append(i)
    return lines, out


def mutants_for(path, rng, n):
    lines, cand = candidate_lines(path)
    pool = []
    for i in cand:
        l = lines[i]
        code = l.split("//")[0]
        for pat, rep in OPS:
            for m in re.finditer(pat, code):
                new = code[:m.start()] + rep + code[m.end():] + l[len(code):]
                if new != l:
                    pool.append((i, l, new, "%s -> %s" % (pat, rep)))
        # statement deletion of simple assignments
        if re.match(r"^\s*(self\.\w+|\w+)\s*([-+|&^]|<<|>>)?=\s*[^=].*;\s*$", code) and "let " not in code:
            pool.append((i, l, re.match(r"^\s*", l).group(0) + "// deleted: " + l.strip(), "delete statement"))
    rng.shuffle(pool)
    seen = set()
    out = []
    for m in pool:
        if m[0] in seen:
            continue
        seen.add(m[0])
        out.append(m)
        if len(out) >= n:
            break
    return out


def sh(cmd, cwd=None, timeout=None):
    try:
        p = subprocess.run(cmd, shell=True, cwd=cwd, env=env, stdout=subprocess.PIPE, stderr=subprocess.STDOUT, timeout=timeout)
        return p.returncode, p.stdout.decode(errors="replace")
    except subprocess.TimeoutExpired:
        return 124, "timeout"


def setup():
    os.makedirs(work, exist_ok=True)
    if not os.path.isdir(WT):
        rc, out = sh("git -C /repo worktree add -q --detach %s HEAD" % WT)
        assert rc == 0, out
    sh("rsync -a --delete --exclude 'target*' --exclude gen /verif/harness/ %s/" % H)
    ct = open(os.path.join(H, "Cargo.toml")).read()
    ct = re.sub(r'dsi-bitstream = \{ path = "[^"]*" \}', 'dsi-bitstream = { path = "%s" }' % WT, ct)
    open(os.path.join(H, "Cargo.toml"), "w").write(ct)


def main():
    setup()
    rng = random.Random(seed)
    files = [f for f in FILES if not only or f in only]
    todo = []
    for f in files:
        for m in mutants_for(f, rng, n_per_file):
            todo.append((f, m))
    rng.shuffle(todo)
    print("campaign: %d mutants" % len(todo), flush=True)
    for k, (f, (i, old, new, op)) in enumerate(todo):
        path = os.path.join(WT, f)
        sh("git checkout -q -- .", cwd=WT)
        lines = open(path).read().split("\n")
        assert lines[i] == old
        lines[i] = new
        open(path, "w").write("\n".join(lines))
        t0 = time.time()
        rc, out = sh("cargo build --release --offline --target-dir %s/target 2>&1 | tail -30" % work, cwd=H, timeout=1500)
        rec = {"file": f, "line": i + 1, "op": op, "old": old.strip(), "new": new.strip()}
        if "error" in out and "Finished" not in out:
            rec["status"] = "does-not-compile"
        else:
            rec["status"] = "survived"
            rec["props"] = {}
            for p in FILES[f]:
                rc, out = sh("timeout 600 %s/target/release/dsiverif run %s --tier quick --out %s/res.json 2>/dev/null | grep '^\\[dsiverif\\]' | head -3" % (work, p, work), cwd=H)
                first = out.strip().split("\n")
                m = re.search(r"violations=(\d+) inconclusive=(\d+)", out)
                if (m and int(m.group(1)) > 0) or "did-not-return" in out:
                    rec["status"] = "detected"
                    rec["props"][p] = first[1][:300] if len(first) > 1 else "violation"
                    break
                elif not m or int(m.group(2)) > 0:
                    rec["props"][p] = "inconclusive/" + out[:120]
                    if rec["status"] == "survived":
                        rec["status"] = "inconclusive"
                else:
                    rec["props"][p] = "silent"
            if rec["status"] in ("survived", "inconclusive"):
                # would the repository's own suite have caught it?
                rc, out = sh("cargo test --workspace --no-fail-fast --offline 2>&1 | grep -E 'test result|FAILED|panicked' | head -20", cwd=WT, timeout=1800)
                rec["repo_suite"] = "fails" if ("FAILED" in out or re.search(r"; [1-9][0-9]* failed", out)) else "passes"
                rec["repo_suite_out"] = out[-400:]
        rec["secs"] = round(time.time() - t0, 1)
        open(LOG, "a").write(json.dumps(rec) + "\n")
        print("%d/%d %s:%d %s -> %s" % (k + 1, len(todo), f, i + 1, op, rec["status"]), flush=True)
    sh("git checkout -q -- .", cwd=WT)


main()
