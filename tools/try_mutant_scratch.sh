#!/usr/bin/env bash
# tools/try_mutant_scratch.sh <harness-src-dir> <patch.diff> <PROP>...
# Evaluate a seeded change without touching /repo or /verif/harness: a scratch worktree of /repo HEAD
# gets the patch, a scratch copy of the harness is built against it (release and dbg profiles), and the
# quick tier of the given properties runs. Everything lives under /tmp/evalmut and may be deleted.
set -u
SRC="$1"; PATCH="$2"; shift 2
W=/tmp/evalmut
mkdir -p $W
if [ ! -d $W/repo ]; then git -C /repo worktree add -q --detach $W/repo HEAD || exit 2; fi
git -C $W/repo checkout -q -- . ; git -C $W/repo checkout -q --detach "$(git -C /repo rev-parse HEAD)"
if [ "$PATCH" != "-" ]; then git -C $W/repo apply "$PATCH" || { echo "patch does not apply"; exit 2; }; fi
rsync -a --delete --exclude 'target*' "$SRC"/ $W/harness/
sed -i "s#dsi-bitstream = { path = \"[^\"]*\" }#dsi-bitstream = { path = \"$W/repo\" }#" $W/harness/Cargo.toml
cd $W/harness
export CARGO_NET_OFFLINE=true
for prof in ${PROFILES:-release dbg}; do
  cargo build --profile $prof --offline --target-dir $W/target 2>&1 | grep -E "^error" -A8 | head -20
done
for P in "$@"; do
  for prof in ${PROFILES:-release dbg}; do
    out=$(timeout 1200 $W/target/$prof/dsiverif run $P --tier ${TIER:-quick} --seed ${VERIF_SEED:-0} --out $W/res.json 2>/dev/null | grep '^\[dsiverif\]' | head -${LINES_MAX:-4} | cut -c1-230)
    echo "[$P/$prof] $out"
  done
done
git -C $W/repo checkout -q -- .
