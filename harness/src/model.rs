//! Independent reference model (the oracle).
//!
//! Written from the documentation of the library (src/traits/mod.rs,
//! src/codes/mod.rs and the module docs of each code), deliberately with
//! different data structures than the implementation: a stream is a `Vec<u8>`
//! holding one bit per element, arithmetic is done in `u128`, and no packed
//! word is ever shifted around. Nothing in this file calls the library.

#[derive(Clone, Copy, PartialEq, Eq, Debug, Hash)]
pub enum En {
    BE,
    LE,
}

impl En {
    pub fn name(self) -> &'static str {
        match self {
            En::BE => "BE",
            En::LE => "LE",
        }
    }
    pub const BOTH: [En; 2] = [En::BE, En::LE];
}

/// A stream of bits, one bit per element (0 or 1), in stream order.
pub type Bits = Vec<u8>;

/// Byte image of a bit stream: bit i lives in byte i/8, at bit 7-(i%8) for
/// big-endian streams and at bit i%8 for little-endian streams. The image is
/// padded with zeros to a multiple of `word_bytes`.
pub fn image(bits: &[u8], e: En, word_bytes: usize) -> Vec<u8> {
    let nbytes = bits.len().div_ceil(8);
    let nbytes = nbytes.div_ceil(word_bytes) * word_bytes;
    let mut out = vec![0u8; nbytes];
    for (i, b) in bits.iter().enumerate() {
        if *b != 0 {
            match e {
                En::BE => out[i / 8] |= 1 << (7 - (i % 8)),
                En::LE => out[i / 8] |= 1 << (i % 8),
            }
        }
    }
    out
}

/// Inverse of [`image`]: all the bits of a byte image in stream order.
pub fn bits_of_image(bytes: &[u8], e: En) -> Bits {
    let mut out = Vec::with_capacity(bytes.len() * 8);
    for byte in bytes {
        for j in 0..8 {
            out.push(match e {
                En::BE => (byte >> (7 - j)) & 1,
                En::LE => (byte >> j) & 1,
            });
        }
    }
    out
}

/// A fixed-width field: the n low bits of v, most significant first in BE,
/// least significant first in LE. Higher bits of v are ignored.
pub fn push_bits(out: &mut Bits, e: En, v: u64, n: usize) {
    assert!(n <= 64);
    match e {
        En::BE => {
            for i in (0..n).rev() {
                out.push(((v >> i) & 1) as u8);
            }
        }
        En::LE => {
            for i in 0..n {
                out.push(((v >> i) & 1) as u8);
            }
        }
    }
}

/// Same as push_bits for values that need more than 64 bits of arithmetic
/// (never more than 64 bits are emitted).
fn push_field(out: &mut Bits, e: En, v: u128, n: usize) {
    assert!(n <= 64);
    assert!(n == 64 || v >> n == 0 || true);
    push_bits(out, e, v as u64, n);
}

/// Unary code: x zeros followed by a one (same in both endiannesses).
pub fn push_unary(out: &mut Bits, x: u64) {
    for _ in 0..x {
        out.push(0);
    }
    out.push(1);
}

/// Value of the n bits at pos (None if the stream ends before).
pub fn get_bits(bits: &[u8], pos: usize, n: usize, e: En) -> Option<u64> {
    if pos + n > bits.len() {
        return None;
    }
    let mut v: u64 = 0;
    match e {
        En::BE => {
            for i in 0..n {
                v = (v << 1) | bits[pos + i] as u64;
            }
        }
        En::LE => {
            for i in 0..n {
                v |= (bits[pos + i] as u64) << i;
            }
        }
    }
    Some(v)
}

/// Like get_bits, but the stream is followed by infinitely many zeros.
pub fn get_bits_zext(bits: &[u8], pos: usize, n: usize, e: En) -> u64 {
    let mut v: u64 = 0;
    for i in 0..n {
        let b = *bits.get(pos + i).unwrap_or(&0) as u64;
        match e {
            En::BE => v = (v << 1) | b,
            En::LE => v |= b << i,
        }
    }
    v
}

/// Number of zeros before the next one starting at pos (None if no one follows).
pub fn get_unary(bits: &[u8], pos: usize) -> Option<u64> {
    let mut i = pos;
    while i < bits.len() {
        if bits[i] == 1 {
            return Some((i - pos) as u64);
        }
        i += 1;
    }
    None
}

fn ilog2_u128(x: u128) -> u32 {
    assert!(x > 0);
    127 - x.leading_zeros()
}

/// The codes of the library.
#[derive(Clone, Copy, PartialEq, Eq, Debug, Hash)]
pub enum Code {
    Unary,
    Gamma,
    Delta,
    Omega,
    Zeta(u32),
    Pi(u32),
    Golomb(u64),
    Rice(u32),
    ExpGolomb(u32),
    MinBin(u64),
    VByteBe,
    VByteLe,
}

impl Code {
    pub fn name(&self) -> String {
        match self {
            Code::Unary => "unary".into(),
            Code::Gamma => "gamma".into(),
            Code::Delta => "delta".into(),
            Code::Omega => "omega".into(),
            Code::Zeta(k) => format!("zeta{}", k),
            Code::Pi(k) => format!("pi{}", k),
            Code::Golomb(b) => format!("golomb{}", b),
            Code::Rice(k) => format!("rice{}", k),
            Code::ExpGolomb(k) => format!("expgolomb{}", k),
            Code::MinBin(u) => format!("minbin{}", u),
            Code::VByteBe => "vbytebe".into(),
            Code::VByteLe => "vbytele".into(),
        }
    }
    pub fn family(&self) -> &'static str {
        match self {
            Code::Unary => "unary",
            Code::Gamma => "gamma",
            Code::Delta => "delta",
            Code::Omega => "omega",
            Code::Zeta(_) => "zeta",
            Code::Pi(_) => "pi",
            Code::Golomb(_) => "golomb",
            Code::Rice(_) => "rice",
            Code::ExpGolomb(_) => "expgolomb",
            Code::MinBin(_) => "minbin",
            Code::VByteBe => "vbytebe",
            Code::VByteLe => "vbytele",
        }
    }
    /// Largest value in the documented domain of the code.
    pub fn max_value(&self) -> u64 {
        match self {
            Code::VByteBe | Code::VByteLe => u64::MAX,
            Code::MinBin(u) => u - 1,
            // Unary of u64::MAX is explicitly excluded; all universal codes
            // are documented up to 2^64 - 2.
            _ => u64::MAX - 1,
        }
    }
}

/// Minimal binary code of x < u (module doc of minimal_binary.rs):
/// s = ceil(log2 u); if x < 2^s - u then x in s-1 bits, else x - u + 2^s in
/// s bits. In little-endian streams the first s-1 bits (the most
/// significant ones) are written as a field, and the extra (least
/// significant) bit comes last (src/codes/mod.rs, "encode 2 as 011 in BE and
/// as 101 in LE").
fn push_minbin(out: &mut Bits, e: En, x: u128, u: u128) {
    assert!(u > 0 && x < u);
    // s = ceil(log2 u)
    let s: u32 = if u == 1 { 0 } else { ilog2_u128(u - 1) + 1 };
    let short = (1u128 << s) - u;
    if u.is_power_of_two() {
        // 2^s - u = 0: every value takes s bits
        push_field(out, e, x, s as usize);
        return;
    }
    if x < short {
        push_field(out, e, x, (s - 1) as usize);
    } else {
        let y = x + (1u128 << s) - u;
        // s bits; high s-1 bits first, then the lowest bit
        push_field(out, e, y >> 1, (s - 1) as usize);
        out.push((y & 1) as u8);
    }
}

fn len_minbin(x: u128, u: u128) -> u128 {
    assert!(u > 0 && x < u);
    let s: u32 = if u == 1 { 0 } else { ilog2_u128(u - 1) + 1 };
    if u.is_power_of_two() {
        return s as u128;
    }
    let short = (1u128 << s) - u;
    if x < short {
        (s - 1) as u128
    } else {
        s as u128
    }
}

/// Interval bounds of a zeta code: h = floor(log2(n+1)) / k, the interval is
/// [2^(hk), 2^((h+1)k)). When 2^((h+1)k) does not fit 64 bits the library
/// (and this model) cap it at 2^64, as no representable value lies beyond.
fn zeta_interval(n1: u128, k: u32) -> (u64, u128, u128) {
    let h = ilog2_u128(n1) / k;
    let lo = 1u128 << (h * k);
    let hi_exp = (h + 1) * k;
    let hi = if hi_exp >= 64 { 1u128 << 64 } else { 1u128 << hi_exp };
    (h as u64, lo, hi)
}

/// VByte: complete ungrouped code; returns the bytes in stream order.
pub fn vbyte_bytes(v: u64, big: bool) -> Vec<u8> {
    // Completeness: 1 byte codes [0, 2^7), 2 bytes the next 2^14 values, ...
    let mut base: u128 = 0;
    let mut nbytes = 1usize;
    let v = v as u128;
    loop {
        let span = 1u128 << (7 * nbytes);
        if v < base + span {
            break;
        }
        base += span;
        nbytes += 1;
    }
    let r = v - base; // fits 7*nbytes bits
    let mut groups: Vec<u8> = (0..nbytes)
        .map(|i| ((r >> (7 * i)) & 0x7f) as u8)
        .collect(); // little-endian: lowest group first
    if big {
        groups.reverse();
    }
    for (i, g) in groups.iter_mut().enumerate() {
        if i + 1 != nbytes {
            *g |= 0x80; // continuation bit on all but the last byte
        }
    }
    groups
}

/// Decode a terminated vbyte string with u128 arithmetic (None if the value
/// does not fit u64).
pub fn vbyte_value(bytes: &[u8], big: bool) -> Option<u64> {
    let n = bytes.len();
    assert!(n >= 1);
    if n > 10 {
        return None;
    }
    let mut base: u128 = 0;
    for i in 1..n {
        base += 1u128 << (7 * i);
    }
    let mut r: u128 = 0;
    for (i, b) in bytes.iter().enumerate() {
        let g = (*b & 0x7f) as u128;
        let pos = if big { n - 1 - i } else { i };
        r |= g << (7 * pos);
    }
    let v = base + r;
    if v > u64::MAX as u128 {
        None
    } else {
        Some(v as u64)
    }
}

/// Append the codeword of v.
pub fn push_code(out: &mut Bits, e: En, code: Code, v: u64) {
    let n1 = v as u128 + 1;
    match code {
        Code::Unary => push_unary(out, v),
        Code::Gamma => {
            let l = ilog2_u128(n1);
            push_unary(out, l as u64);
            push_field(out, e, n1 - (1u128 << l), l as usize);
        }
        Code::Delta => {
            let l = ilog2_u128(n1);
            push_code(out, e, Code::Gamma, l as u64);
            push_field(out, e, n1 - (1u128 << l), l as usize);
        }
        Code::Omega => {
            // blocks b0 b1 ... bn 0: the last block is n+1 in binary, each
            // block value + 1 is the length of the next one, b0 has 2 bits.
            let mut blocks: Vec<u128> = vec![];
            let mut x = n1;
            while x > 1 {
                blocks.push(x);
                x = ilog2_u128(x) as u128;
            }
            blocks.reverse();
            for b in blocks {
                let w = ilog2_u128(b) as usize + 1;
                match e {
                    En::BE => push_field(out, e, b, w),
                    En::LE => {
                        // rotated left by one: the most significant bit (a
                        // one) comes first, then the rest as a field
                        out.push(1);
                        push_field(out, e, b - (1u128 << (w - 1)), w - 1);
                    }
                }
            }
            out.push(0);
        }
        Code::Zeta(k) => {
            let (h, lo, hi) = zeta_interval(n1, k);
            push_unary(out, h);
            push_minbin(out, e, n1 - lo, hi - lo);
        }
        Code::Pi(k) => {
            let l = ilog2_u128(n1);
            push_code(out, e, Code::Rice(k), l as u64);
            push_field(out, e, n1 - (1u128 << l), l as usize);
        }
        Code::Golomb(b) => {
            push_unary(out, v / b);
            push_minbin(out, e, (v % b) as u128, b as u128);
        }
        Code::Rice(k) => {
            push_unary(out, v >> k);
            push_field(out, e, (v as u128) & ((1u128 << k) - 1), k as usize);
        }
        Code::ExpGolomb(k) => {
            push_code(out, e, Code::Gamma, v >> k);
            push_field(out, e, (v as u128) & ((1u128 << k) - 1), k as usize);
        }
        Code::MinBin(u) => push_minbin(out, e, v as u128, u as u128),
        Code::VByteBe => {
            for b in vbyte_bytes(v, true) {
                push_bits(out, e, b as u64, 8);
            }
        }
        Code::VByteLe => {
            for b in vbyte_bytes(v, false) {
                push_bits(out, e, b as u64, 8);
            }
        }
    }
}

pub fn encode(e: En, code: Code, v: u64) -> Bits {
    let mut out = vec![];
    push_code(&mut out, e, code, v);
    out
}

/// Closed-form length (no bit list is built): usable for values whose
/// codeword has astronomically many bits.
pub fn code_len(code: Code, v: u64) -> u128 {
    let n1 = v as u128 + 1;
    match code {
        Code::Unary => n1,
        Code::Gamma => 2 * ilog2_u128(n1) as u128 + 1,
        Code::Delta => {
            let l = ilog2_u128(n1);
            l as u128 + code_len(Code::Gamma, l as u64)
        }
        Code::Omega => {
            let mut total = 1u128;
            let mut x = n1;
            while x > 1 {
                let l = ilog2_u128(x);
                total += l as u128 + 1;
                x = l as u128;
            }
            total
        }
        Code::Zeta(k) => {
            let (h, lo, hi) = zeta_interval(n1, k);
            h as u128 + 1 + len_minbin(n1 - lo, hi - lo)
        }
        Code::Pi(k) => {
            let l = ilog2_u128(n1);
            code_len(Code::Rice(k), l as u64) + l as u128
        }
        Code::Golomb(b) => (v / b) as u128 + 1 + len_minbin((v % b) as u128, b as u128),
        Code::Rice(k) => (v >> k) as u128 + 1 + k as u128,
        Code::ExpGolomb(k) => code_len(Code::Gamma, v >> k) + k as u128,
        Code::MinBin(u) => len_minbin(v as u128, u as u128),
        Code::VByteBe | Code::VByteLe => 8 * vbyte_bytes(v, true).len() as u128,
    }
}

/// Generic prefix decoder, derived from the definitions (not from the
/// library's readers). Returns (value, position after the codeword), or None
/// when the stream ends inside the codeword or the decoded value is not
/// representable.
pub fn decode(bits: &[u8], pos: usize, e: En, code: Code) -> Option<(u64, usize)> {
    match code {
        Code::Unary => {
            let x = get_unary(bits, pos)?;
            Some((x, pos + x as usize + 1))
        }
        Code::Gamma => {
            let l = get_unary(bits, pos)?;
            if l > 64 {
                return None;
            }
            let p = pos + l as usize + 1;
            let r = if l == 64 { return None } else { get_bits(bits, p, l as usize, e)? };
            let v = (1u128 << l) + r as u128 - 1;
            if v > u64::MAX as u128 {
                return None;
            }
            Some((v as u64, p + l as usize))
        }
        Code::Delta => {
            let (l, p) = decode(bits, pos, e, Code::Gamma)?;
            if l >= 64 {
                return None;
            }
            let r = get_bits(bits, p, l as usize, e)?;
            let v = (1u128 << l) + r as u128 - 1;
            Some((v as u64, p + l as usize))
        }
        Code::Omega => {
            let mut n: u128 = 1;
            let mut p = pos;
            loop {
                let first = *bits.get(p)?;
                if first == 0 {
                    return Some(((n - 1) as u64, p + 1));
                }
                let w = n as usize + 1; // block length
                if w > 64 {
                    return None;
                }
                let b = match e {
                    En::BE => get_bits(bits, p, w, e)? as u128,
                    En::LE => (1u128 << (w - 1)) + get_bits(bits, p + 1, w - 1, e)? as u128,
                };
                p += w;
                n = b;
            }
        }
        Code::Zeta(k) => {
            let h = get_unary(bits, pos)?;
            let p = pos + h as usize + 1;
            if h as u128 * k as u128 >= 64 {
                return None;
            }
            let lo = 1u128 << (h as u32 * k);
            let hi_exp = (h as u32 + 1) * k;
            let hi = if hi_exp >= 64 { 1u128 << 64 } else { 1u128 << hi_exp };
            let (r, p2) = decode_minbin(bits, p, e, hi - lo)?;
            Some(((lo + r - 1) as u64, p2))
        }
        Code::Pi(k) => {
            let (l, p) = decode(bits, pos, e, Code::Rice(k))?;
            if l >= 64 {
                return None;
            }
            let r = get_bits(bits, p, l as usize, e)?;
            Some((((1u128 << l) + r as u128 - 1) as u64, p + l as usize))
        }
        Code::Golomb(b) => {
            let q = get_unary(bits, pos)?;
            let p = pos + q as usize + 1;
            let (r, p2) = decode_minbin(bits, p, e, b as u128)?;
            let v = q as u128 * b as u128 + r;
            if v > u64::MAX as u128 {
                return None;
            }
            Some((v as u64, p2))
        }
        Code::Rice(k) => {
            let q = get_unary(bits, pos)?;
            let p = pos + q as usize + 1;
            let r = get_bits(bits, p, k as usize, e)?;
            let v = ((q as u128) << k) + r as u128;
            if v > u64::MAX as u128 {
                return None;
            }
            Some((v as u64, p + k as usize))
        }
        Code::ExpGolomb(k) => {
            let (q, p) = decode(bits, pos, e, Code::Gamma)?;
            let r = get_bits(bits, p, k as usize, e)?;
            let v = ((q as u128) << k) + r as u128;
            if v > u64::MAX as u128 {
                return None;
            }
            Some((v as u64, p + k as usize))
        }
        Code::MinBin(u) => {
            let (r, p) = decode_minbin(bits, pos, e, u as u128)?;
            Some((r as u64, p))
        }
        Code::VByteBe | Code::VByteLe => {
            let big = code == Code::VByteBe;
            let mut bytes = vec![];
            let mut p = pos;
            loop {
                let b = get_bits(bits, p, 8, e)? as u8;
                p += 8;
                bytes.push(b);
                if b & 0x80 == 0 {
                    break;
                }
                if bytes.len() > 10 {
                    return None;
                }
            }
            Some((vbyte_value(&bytes, big)?, p))
        }
    }
}

fn decode_minbin(bits: &[u8], pos: usize, e: En, u: u128) -> Option<(u128, usize)> {
    let s: u32 = if u == 1 { 0 } else { ilog2_u128(u - 1) + 1 };
    if u.is_power_of_two() {
        return Some((get_bits(bits, pos, s as usize, e)? as u128, pos + s as usize));
    }
    let short = (1u128 << s) - u;
    let hi = get_bits(bits, pos, (s - 1) as usize, e)? as u128;
    if hi < short {
        Some((hi, pos + (s - 1) as usize))
    } else {
        let low = *bits.get(pos + (s - 1) as usize)? as u128;
        let y = (hi << 1) | low;
        Some((y + u - (1u128 << s), pos + s as usize))
    }
}

/// Zig-zag mapping computed with wide arithmetic (for C17).
pub fn to_nat_i128(x: i128) -> u128 {
    // x >= 0 -> 2x ; x < 0 -> -2x - 1. |x| <= 2^127 so use two halves.
    if x >= 0 {
        (x as u128) * 2
    } else {
        // -2x - 1 = 2*(-(x+1)) + 1
        ((-(x + 1)) as u128) * 2 + 1
    }
}

pub fn bits_to_string(bits: &[u8]) -> String {
    bits.iter().map(|b| if *b == 0 { '0' } else { '1' }).collect()
}

pub fn bits_from_string(s: &str) -> Bits {
    s.bytes().filter(|c| *c == b'0' || *c == b'1').map(|c| c - b'0').collect()
}
