//! Result collection: counts of oracle comparisons, measured distinct
//! non-trivial cases, coverage sets, samples, and violations grouped by
//! signature. Written as JSON by hand (no serde, so the same code runs under
//! Miri and the sanitizers without extra dependencies).

use std::collections::{BTreeMap, BTreeSet, HashSet};
use std::hash::{Hash, Hasher};

#[derive(Clone, Debug)]
pub struct Violation {
    pub sig: String,
    pub what: String,
    /// monitor-specific replayable case (key=value tokens)
    pub case: String,
    pub count: u64,
}

#[derive(Clone, Debug, Default)]
pub struct Report {
    pub prop: String,
    pub evaluations: u64,
    pub distinct: HashSet<u64>,
    pub samples: Vec<String>,
    pub sample_budget: usize,
    pub violations: BTreeMap<String, Violation>,
    pub counters: BTreeMap<String, u64>,
    pub cover: BTreeMap<String, BTreeSet<u64>>,
    pub inconclusive: Vec<String>,
    pub exhaustive_parts: Vec<String>,
    pub notes: Vec<String>,
}

pub fn hash_of<T: Hash>(t: &T) -> u64 {
    #[allow(deprecated)]
    let mut h = std::hash::SipHasher::new();
    t.hash(&mut h);
    h.finish()
}

impl Report {
    pub fn new(prop: &str) -> Self {
        Report { prop: prop.to_string(), sample_budget: 6, ..Default::default() }
    }
    /// n oracle comparisons were made
    #[inline]
    pub fn eval(&mut self, n: u64) {
        crate::tick();
        self.evaluations += n;
    }
    /// a distinct non-trivial case (by the monitor's stated rule)
    #[inline]
    pub fn case<T: Hash>(&mut self, key: &T) {
        self.distinct.insert(hash_of(key));
    }
    pub fn sample(&mut self, f: impl FnOnce() -> String) {
        if self.samples.len() < self.sample_budget {
            self.samples.push(f());
        }
    }
    pub fn count(&mut self, name: &str, n: u64) {
        *self.counters.entry(name.to_string()).or_insert(0) += n;
    }
    pub fn cover(&mut self, name: &str, item: u64) {
        self.cover.entry(name.to_string()).or_default().insert(item);
    }
    pub fn violation(&mut self, sig: &str, what: impl FnOnce() -> String, case: impl FnOnce() -> String) {
        let sig = format!("{}|{}", self.prop, sig);
        if let Some(v) = self.violations.get_mut(&sig) {
            v.count += 1;
            // keep the shortest witness
            if v.count < 200 {
                let c = case();
                if c.len() < v.case.len() {
                    v.case = c;
                    v.what = what();
                }
            }
            return;
        }
        self.violations.insert(sig.clone(), Violation { sig, what: what(), case: case(), count: 1 });
    }
    pub fn inconclusive(&mut self, why: String) {
        if !self.inconclusive.contains(&why) {
            self.inconclusive.push(why);
        }
    }
    pub fn exhaustive(&mut self, part: &str) {
        if !self.exhaustive_parts.iter().any(|p| p == part) {
            self.exhaustive_parts.push(part.to_string());
        }
    }
    pub fn note(&mut self, n: String) {
        if self.notes.len() < 40 && !self.notes.contains(&n) {
            self.notes.push(n);
        }
    }
    pub fn merge(&mut self, o: Report) {
        self.evaluations += o.evaluations;
        self.distinct.extend(o.distinct);
        for s in o.samples {
            if self.samples.len() < self.sample_budget * 2 {
                self.samples.push(s);
            }
        }
        for (k, v) in o.violations {
            match self.violations.get_mut(&k) {
                Some(mine) => {
                    mine.count += v.count;
                    if v.case.len() < mine.case.len() {
                        mine.case = v.case;
                        mine.what = v.what;
                    }
                }
                None => {
                    self.violations.insert(k, v);
                }
            }
        }
        for (k, v) in o.counters {
            *self.counters.entry(k).or_insert(0) += v;
        }
        for (k, v) in o.cover {
            self.cover.entry(k).or_default().extend(v);
        }
        for i in o.inconclusive {
            self.inconclusive(i);
        }
        for e in o.exhaustive_parts {
            self.exhaustive(&e);
        }
        for n in o.notes {
            self.note(n);
        }
    }

    pub fn to_json(&self, tier: &str, seed: u64, variant: &str, wall_s: f64) -> String {
        let mut s = String::new();
        s.push_str("{\n");
        s.push_str(&format!(" \"property_id\": {},\n", jstr(&self.prop)));
        s.push_str(&format!(" \"tier\": {},\n \"seed\": {},\n \"variant\": {},\n \"wall_s\": {:.3},\n", jstr(tier), seed, jstr(variant), wall_s));
        s.push_str(&format!(" \"evaluations\": {},\n \"distinct_nontrivial\": {},\n", self.evaluations, self.distinct.len()));
        s.push_str(" \"samples\": [");
        s.push_str(&self.samples.iter().map(|x| jstr(x)).collect::<Vec<_>>().join(", "));
        s.push_str("],\n \"counters\": {");
        s.push_str(&self.counters.iter().map(|(k, v)| format!("{}: {}", jstr(k), v)).collect::<Vec<_>>().join(", "));
        s.push_str("},\n \"cover\": {");
        s.push_str(
            &self
                .cover
                .iter()
                .map(|(k, v)| {
                    // sizes only, plus the items when few
                    if v.len() <= 140 {
                        format!("{}: [{}]", jstr(k), v.iter().map(|x| x.to_string()).collect::<Vec<_>>().join(","))
                    } else {
                        format!("{}: {}", jstr(k), v.len())
                    }
                })
                .collect::<Vec<_>>()
                .join(", "),
        );
        s.push_str("},\n \"exhaustive_parts\": [");
        s.push_str(&self.exhaustive_parts.iter().map(|x| jstr(x)).collect::<Vec<_>>().join(", "));
        s.push_str("],\n \"inconclusive\": [");
        s.push_str(&self.inconclusive.iter().map(|x| jstr(x)).collect::<Vec<_>>().join(", "));
        s.push_str("],\n \"notes\": [");
        s.push_str(&self.notes.iter().map(|x| jstr(x)).collect::<Vec<_>>().join(", "));
        s.push_str("],\n \"violations\": [");
        s.push_str(
            &self
                .violations
                .values()
                .map(|v| {
                    format!(
                        "\n  {{\"signature\": {}, \"what\": {}, \"case\": {}, \"count\": {}}}",
                        jstr(&v.sig),
                        jstr(&v.what),
                        jstr(&v.case),
                        v.count
                    )
                })
                .collect::<Vec<_>>()
                .join(","),
        );
        s.push_str("]\n}\n");
        s
    }
}

// ---- compact binary form, used to ship a shard's report to the parent process ----
fn put_u64(b: &mut Vec<u8>, x: u64) {
    b.extend_from_slice(&x.to_le_bytes());
}
fn put_str(b: &mut Vec<u8>, s: &str) {
    put_u64(b, s.len() as u64);
    b.extend_from_slice(s.as_bytes());
}
struct Rd<'a>(&'a [u8], usize);
impl<'a> Rd<'a> {
    fn u64(&mut self) -> u64 {
        let v = u64::from_le_bytes(self.0[self.1..self.1 + 8].try_into().unwrap());
        self.1 += 8;
        v
    }
    fn str(&mut self) -> String {
        let n = self.u64() as usize;
        let s = String::from_utf8_lossy(&self.0[self.1..self.1 + n]).to_string();
        self.1 += n;
        s
    }
}

impl Report {
    pub fn to_bytes(&self) -> Vec<u8> {
        let mut b = vec![];
        put_str(&mut b, &self.prop);
        put_u64(&mut b, self.evaluations);
        put_u64(&mut b, self.distinct.len() as u64);
        for d in &self.distinct {
            put_u64(&mut b, *d);
        }
        put_u64(&mut b, self.samples.len() as u64);
        for s in &self.samples {
            put_str(&mut b, s);
        }
        put_u64(&mut b, self.violations.len() as u64);
        for v in self.violations.values() {
            put_str(&mut b, &v.sig);
            put_str(&mut b, &v.what);
            put_str(&mut b, &v.case);
            put_u64(&mut b, v.count);
        }
        put_u64(&mut b, self.counters.len() as u64);
        for (k, v) in &self.counters {
            put_str(&mut b, k);
            put_u64(&mut b, *v);
        }
        put_u64(&mut b, self.cover.len() as u64);
        for (k, v) in &self.cover {
            put_str(&mut b, k);
            put_u64(&mut b, v.len() as u64);
            for x in v {
                put_u64(&mut b, *x);
            }
        }
        for list in [&self.inconclusive, &self.exhaustive_parts, &self.notes] {
            put_u64(&mut b, list.len() as u64);
            for s in list {
                put_str(&mut b, s);
            }
        }
        b
    }
    pub fn from_bytes(bytes: &[u8]) -> Report {
        let mut r = Rd(bytes, 0);
        let mut rep = Report::new(&r.str());
        rep.evaluations = r.u64();
        for _ in 0..r.u64() {
            let d = r.u64();
            rep.distinct.insert(d);
        }
        for _ in 0..r.u64() {
            let s = r.str();
            rep.samples.push(s);
        }
        for _ in 0..r.u64() {
            let sig = r.str();
            let what = r.str();
            let case = r.str();
            let count = r.u64();
            rep.violations.insert(sig.clone(), Violation { sig, what, case, count });
        }
        for _ in 0..r.u64() {
            let k = r.str();
            let v = r.u64();
            rep.counters.insert(k, v);
        }
        for _ in 0..r.u64() {
            let k = r.str();
            let n = r.u64();
            let mut set = BTreeSet::new();
            for _ in 0..n {
                set.insert(r.u64());
            }
            rep.cover.insert(k, set);
        }
        for which in 0..3 {
            for _ in 0..r.u64() {
                let s = r.str();
                match which {
                    0 => rep.inconclusive.push(s),
                    1 => rep.exhaustive_parts.push(s),
                    _ => rep.notes.push(s),
                }
            }
        }
        rep
    }
}

pub fn jstr(s: &str) -> String {
    let mut o = String::with_capacity(s.len() + 2);
    o.push('"');
    for c in s.chars() {
        match c {
            '"' => o.push_str("\\\""),
            '\\' => o.push_str("\\\\"),
            '\n' => o.push_str("\\n"),
            '\r' => o.push_str("\\r"),
            '\t' => o.push_str("\\t"),
            c if (c as u32) < 0x20 => o.push_str(&format!("\\u{:04x}", c as u32)),
            c => o.push(c),
        }
    }
    o.push('"');
    o
}

/// Extract the string value of a top-level key from a JSON text written by
/// `jstr` (enough for replay files, which this harness writes itself).
pub fn json_get_str(text: &str, key: &str) -> Option<String> {
    let pat = format!("\"{}\"", key);
    let i = text.find(&pat)?;
    let rest = &text[i + pat.len()..];
    let rest = rest.trim_start();
    let rest = rest.strip_prefix(':')?.trim_start();
    let mut chars = rest.chars();
    if chars.next()? != '"' {
        return None;
    }
    let mut out = String::new();
    while let Some(c) = chars.next() {
        match c {
            '"' => return Some(out),
            '\\' => match chars.next()? {
                'n' => out.push('\n'),
                'r' => out.push('\r'),
                't' => out.push('\t'),
                'u' => {
                    let h: String = chars.by_ref().take(4).collect();
                    out.push(char::from_u32(u32::from_str_radix(&h, 16).ok()?)?);
                }
                c => out.push(c),
            },
            c => out.push(c),
        }
    }
    None
}

/// key=value tokens separated by spaces (values contain no spaces)
#[derive(Clone, Debug, Default)]
pub struct Kv(pub BTreeMap<String, String>);

impl Kv {
    pub fn parse(s: &str) -> Kv {
        let mut m = BTreeMap::new();
        for tok in s.split_whitespace() {
            if let Some((k, v)) = tok.split_once('=') {
                m.insert(k.to_string(), v.to_string());
            }
        }
        Kv(m)
    }
    pub fn get(&self, k: &str) -> &str {
        self.0.get(k).map(|s| s.as_str()).unwrap_or_else(|| panic!("replay case lacks key {}", k))
    }
    pub fn opt(&self, k: &str) -> Option<&str> {
        self.0.get(k).map(|s| s.as_str())
    }
    pub fn u64(&self, k: &str) -> u64 {
        parse_u64(self.get(k))
    }
    pub fn usize(&self, k: &str) -> usize {
        self.u64(k) as usize
    }
}

pub fn parse_u64(s: &str) -> u64 {
    if let Some(h) = s.strip_prefix("0x") {
        u64::from_str_radix(h, 16).expect("bad hex")
    } else {
        s.parse().expect("bad int")
    }
}

pub fn hex(bytes: &[u8]) -> String {
    bytes.iter().map(|b| format!("{:02x}", b)).collect()
}

pub fn unhex(s: &str) -> Vec<u8> {
    (0..s.len() / 2).map(|i| u8::from_str_radix(&s[2 * i..2 * i + 2], 16).expect("bad hex")).collect()
}
