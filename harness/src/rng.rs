//! Deterministic pseudo-random generator and value generators (no external crate,
//! so the same workload runs under Miri and sanitizers).

#[derive(Clone, Debug)]
pub struct Rng(pub u64);

impl Rng {
    pub fn new(seed: u64) -> Self {
        // splitmix to avoid the all-zero state
        let mut z = seed.wrapping_add(0x9E37_79B9_7F4A_7C15);
        z = (z ^ (z >> 30)).wrapping_mul(0xBF58_476D_1CE4_E5B9);
        z = (z ^ (z >> 27)).wrapping_mul(0x94D0_49BB_1331_11EB);
        z ^= z >> 31;
        Rng(if z == 0 { 0x1234_5678_9abc_def1 } else { z })
    }
    pub fn derive(seed: u64, stream: u64) -> Self {
        Rng::new(seed.wrapping_mul(0x2545_F491_4F6C_DD1D).wrapping_add(stream.wrapping_mul(0x9E37_79B9_7F4A_7C15)))
    }
    pub fn next(&mut self) -> u64 {
        // xorshift64*
        let mut x = self.0;
        x ^= x >> 12;
        x ^= x << 25;
        x ^= x >> 27;
        self.0 = x;
        x.wrapping_mul(0x2545_F491_4F6C_DD1D)
    }
    /// uniform in 0..n (n > 0)
    pub fn below(&mut self, n: u64) -> u64 {
        self.next() % n
    }
    pub fn range(&mut self, lo: u64, hi_incl: u64) -> u64 {
        lo + self.below(hi_incl - lo + 1)
    }
    pub fn chance(&mut self, num: u64, den: u64) -> bool {
        self.below(den) < num
    }
    pub fn pick<'a, T>(&mut self, v: &'a [T]) -> &'a T {
        &v[self.below(v.len() as u64) as usize]
    }
    /// log-uniform value: random bit length in 0..=max_bits, then random bits
    pub fn log_uniform(&mut self, max_bits: u32) -> u64 {
        let bits = self.below(max_bits as u64 + 1) as u32;
        if bits == 0 {
            0
        } else if bits == 64 {
            self.next() | (1 << 63)
        } else {
            (self.next() & ((1u64 << bits) - 1)) | (1u64 << (bits - 1))
        }
    }
    /// log-uniform value not exceeding max
    pub fn log_uniform_max(&mut self, max: u64) -> u64 {
        if max == 0 {
            return 0;
        }
        let mb = 64 - max.leading_zeros();
        let v = self.log_uniform(mb);
        if v > max {
            max - (v % (max / 2 + 1))
        } else {
            v
        }
    }
}

/// Data patterns for byte images
#[derive(Clone, Copy, Debug, PartialEq, Eq, Hash)]
pub enum Pattern {
    Random,
    Ones,
    Zeros,
    Sparse,
    ZeroRuns,
    Alternating,
}
impl Pattern {
    pub const ALL: [Pattern; 6] =
        [Pattern::Random, Pattern::Ones, Pattern::Zeros, Pattern::Sparse, Pattern::ZeroRuns, Pattern::Alternating];
    pub fn name(self) -> &'static str {
        match self {
            Pattern::Random => "random",
            Pattern::Ones => "ones",
            Pattern::Zeros => "zeros",
            Pattern::Sparse => "sparse",
            Pattern::ZeroRuns => "zero-runs",
            Pattern::Alternating => "alternating",
        }
    }
    /// nbits bits of this pattern (stream order)
    pub fn bits(self, rng: &mut Rng, nbits: usize) -> Vec<u8> {
        let mut v = Vec::with_capacity(nbits);
        match self {
            Pattern::Random => {
                let mut w = 0u64;
                for i in 0..nbits {
                    if i % 64 == 0 {
                        w = rng.next();
                    }
                    v.push(((w >> (i % 64)) & 1) as u8);
                }
            }
            Pattern::Ones => v.resize(nbits, 1),
            Pattern::Zeros => v.resize(nbits, 0),
            Pattern::Sparse => {
                for _ in 0..nbits {
                    v.push(if rng.below(13) == 0 { 1 } else { 0 });
                }
            }
            Pattern::ZeroRuns => {
                while v.len() < nbits {
                    let run = rng.log_uniform(8) as usize;
                    for _ in 0..run {
                        v.push(0);
                    }
                    let ones = 1 + rng.below(3) as usize;
                    for _ in 0..ones {
                        v.push(1);
                    }
                }
                v.truncate(nbits);
            }
            Pattern::Alternating => {
                for i in 0..nbits {
                    v.push((i & 1) as u8);
                }
            }
        }
        v
    }
}

/// Boundary grid for 64-bit domains: small values, 2^i-2..2^i+1, the maxima.
pub fn boundary_values(max: u64, small: u64) -> Vec<u64> {
    let mut v: Vec<u64> = (0..=small.min(max)).collect();
    for i in 1..=64u32 {
        let p: u128 = 1u128 << i;
        for d in [-2i128, -1, 0, 1] {
            let x = p as i128 + d;
            if x >= 0 && x as u128 <= max as u128 {
                v.push(x as u64);
            }
        }
    }
    v.push(max);
    if max > 0 {
        v.push(max - 1);
    }
    v.sort_unstable();
    v.dedup();
    v
}
