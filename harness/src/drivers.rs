//! Object-safe adapters over every concrete reader/writer configuration of the
//! library, so that monitors can be written once and run over the whole
//! configuration matrix. All calls go to the real library types.

use crate::backends::*;
use crate::model::{Code, En};
use common_traits::CastableInto;
use dsi_bitstream::prelude::*;
use std::cell::RefCell;
use std::io;
use std::marker::PhantomData;
use std::panic::{catch_unwind, AssertUnwindSafe};
use std::rc::Rc;

pub type R<T> = Result<T, String>;

/// Endianness selector with a runtime tag.
pub trait EnSel: Endianness {
    const EN: En;
}
impl EnSel for BE {
    const EN: En = En::BE;
}
impl EnSel for LE {
    const EN: En = En::LE;
}

/// Which library method reads/writes a code.
#[derive(Clone, Copy, Debug, PartialEq, Eq, Hash)]
pub enum CodeOp {
    /// the standard (parameterless for gamma/delta, parametric otherwise) trait method
    Std(Code),
    GammaP(bool),
    DeltaP(bool, bool),
    Zeta3P(bool),
    /// write_zeta_param::<T>(v, k) / read_zeta_param(k)
    ZetaKP(u32, bool),
    /// read_zeta3() / write_zeta3()
    Zeta3Def,
}

impl CodeOp {
    pub fn code(&self) -> Code {
        match *self {
            CodeOp::Std(c) => c,
            CodeOp::GammaP(_) => Code::Gamma,
            CodeOp::DeltaP(_, _) => Code::Delta,
            CodeOp::Zeta3P(_) | CodeOp::Zeta3Def => Code::Zeta(3),
            CodeOp::ZetaKP(k, _) => Code::Zeta(k),
        }
    }
    /// Decoding tables a *read* through this method may consult (explicitly
    /// requested ones only; the defaults are the library's own business).
    pub fn explicit_read_tables(&self) -> Vec<&'static str> {
        match *self {
            CodeOp::GammaP(true) => vec!["gamma"],
            CodeOp::DeltaP(d, g) => {
                let mut v = vec![];
                if d {
                    v.push("delta");
                }
                if g {
                    v.push("gamma");
                }
                v
            }
            CodeOp::Zeta3P(true) => vec!["zeta"],
            _ => vec![],
        }
    }
    pub fn name(&self) -> String {
        match *self {
            CodeOp::Std(c) => c.name(),
            CodeOp::GammaP(t) => format!("gamma_param<{}>", t),
            CodeOp::DeltaP(a, b) => format!("delta_param<{},{}>", a, b),
            CodeOp::Zeta3P(t) => format!("zeta3_param<{}>", t),
            CodeOp::ZetaKP(k, t) => format!("zeta_param<{}>(k={})", t, k),
            CodeOp::Zeta3Def => "zeta3()".into(),
        }
    }
}

/// Dispatch mechanisms (C10).
#[derive(Clone, Copy, Debug, PartialEq, Eq)]
pub enum Disp {
    DynCodes(Codes),
    StaticCodes(Codes),
    Func(Codes),
    Const(usize),
    StatsDyn(Codes),
    StatsStatic(Codes),
    StatsFunc(Codes),
    StatsConst(usize),
}

// ---------------------------------------------------------------------------------------------
// error type for the dyn adapters
// ---------------------------------------------------------------------------------------------

#[derive(Debug, Clone)]
pub struct StrErr(pub String);
impl std::fmt::Display for StrErr {
    fn fmt(&self, f: &mut std::fmt::Formatter<'_>) -> std::fmt::Result {
        f.write_str(&self.0)
    }
}
impl std::error::Error for StrErr {}

// ---------------------------------------------------------------------------------------------
// panic capture
// ---------------------------------------------------------------------------------------------

thread_local! {
    static LAST_PANIC: RefCell<String> = const { RefCell::new(String::new()) };
    static GUARD_DEPTH: std::cell::Cell<u32> = const { std::cell::Cell::new(0) };
}

pub fn install_panic_hook() {
    std::panic::set_hook(Box::new(|info| {
        let msg = if let Some(s) = info.payload().downcast_ref::<&str>() {
            s.to_string()
        } else if let Some(s) = info.payload().downcast_ref::<String>() {
            s.clone()
        } else {
            "non-string panic".to_string()
        };
        let loc = info
            .location()
            .map(|l| {
                let f = l.file();
                let f = f.rsplit("/src/").next().unwrap_or(f);
                format!("{}:{}", f, l.line())
            })
            .unwrap_or_default();
        if GUARD_DEPTH.with(|d| d.get()) == 0 {
            // not inside a guarded library call: a bug of the harness itself
            println!("[dsiverif] HARNESS PANIC (inconclusive, not a violation): {} @ {}", msg, loc);
        }
        if std::thread::panicking() && std::env::var_os("VERIF_TRACE_PANICS").is_some() {
            eprintln!("[dsiverif] panic: {} @ {}", msg, loc);
        }
        LAST_PANIC.with(|p| *p.borrow_mut() = format!("{} @ {}", msg, loc));
    }));
}

#[derive(Clone, Debug, PartialEq)]
pub enum Out<T> {
    Ok(T),
    Err(String),
    Panic(String),
}

impl<T: std::fmt::Debug> Out<T> {
    pub fn show(&self) -> String {
        match self {
            Out::Ok(v) => format!("Ok({:?})", v),
            Out::Err(e) => format!("Err({})", e),
            Out::Panic(p) => format!("PANIC({})", p),
        }
    }
    pub fn is_ok(&self) -> bool {
        matches!(self, Out::Ok(_))
    }
    pub fn is_panic(&self) -> bool {
        matches!(self, Out::Panic(_))
    }
    pub fn ok(self) -> Option<T> {
        match self {
            Out::Ok(v) => Some(v),
            _ => None,
        }
    }
    /// "ok" / "err" / "panic:<kind>" for signatures
    pub fn class(&self) -> String {
        match self {
            Out::Ok(_) => "ok".into(),
            Out::Err(_) => "err".into(),
            Out::Panic(p) => format!("panic[{}]", panic_kind(p)),
        }
    }
}

/// Coarse class of a panic message, used in violation signatures.
pub fn panic_kind(p: &str) -> String {
    if p.contains("VERIF-BUDGET") {
        return "budget".into();
    }
    let loc = p.rsplit(" @ ").next().unwrap_or("");
    let file = loc.split(':').next().unwrap_or("");
    let kind = if p.contains("overflow") {
        "overflow"
    } else if p.contains("assertion") {
        "assert"
    } else if p.contains("out of bounds") || p.contains("out of range") {
        "bounds"
    } else if p.contains("unwrap") {
        "unwrap"
    } else if p.contains("does not fit") {
        "checks"
    } else {
        "other"
    };
    format!("{}:{}", kind, file)
}

pub fn guard<T>(f: impl FnOnce() -> R<T>) -> Out<T> {
    crate::tick();
    GUARD_DEPTH.with(|d| d.set(d.get() + 1));
    let r = catch_unwind(AssertUnwindSafe(f));
    GUARD_DEPTH.with(|d| d.set(d.get() - 1));
    match r {
        Ok(Ok(v)) => Out::Ok(v),
        Ok(Err(e)) => Out::Err(e),
        Err(_) => Out::Panic(LAST_PANIC.with(|p| p.borrow().clone())),
    }
}

/// guard for infallible closures
pub fn guard_v<T>(f: impl FnOnce() -> T) -> Out<T> {
    guard(|| Ok(f()))
}

// ---------------------------------------------------------------------------------------------
// object-safe traits
// ---------------------------------------------------------------------------------------------

pub trait DynReader {
    fn read_bits(&mut self, n: usize) -> R<u64>;
    fn peek_bits(&mut self, n: usize) -> R<u64>;
    fn skip_bits(&mut self, n: usize) -> R<()>;
    fn skip_after_peek(&mut self, n: usize);
    fn read_unary(&mut self) -> R<u64>;
    fn read_code(&mut self, op: CodeOp) -> R<u64>;
    fn bit_pos(&mut self) -> Option<R<u64>>;
    fn set_bit_pos(&mut self, p: u64) -> Option<R<()>>;
    fn io_read(&mut self, len: usize) -> Option<R<Vec<u8>>>;
    fn try_clone(&self) -> Option<Box<dyn DynReader>>;
    /// The reader's own `copy_to` (its specialisation if it has one)
    fn copy_to(&mut self, w: &mut dyn DynWriter, n: u64) -> R<()>;
    fn counter(&self) -> Option<u64>;
    /// consume the reader through the library's `into_inner` (where it has one) and drop the backend
    fn consume(self: Box<Self>) -> bool;
    fn peek_limit(&self) -> usize;
    fn word_bits(&self) -> usize;
    fn buffered(&self) -> bool;
    fn en(&self) -> En;
    fn desc(&self) -> String;
}

pub trait DynWriter {
    fn write_bits(&mut self, v: u64, n: usize) -> R<usize>;
    fn write_unary(&mut self, x: u64) -> R<usize>;
    fn flush(&mut self) -> R<usize>;
    fn write_code(&mut self, op: CodeOp, v: u64) -> R<usize>;
    fn io_write_all(&mut self, buf: &[u8]) -> Option<R<()>>;
    fn io_write(&mut self, buf: &[u8]) -> Option<R<usize>>;
    fn io_flush(&mut self) -> Option<R<()>>;
    /// The writer's own `copy_from` (its specialisation if it has one)
    fn copy_from(&mut self, r: &mut dyn DynReader, n: u64) -> R<()>;
    /// bytes delivered to the backend so far (when the backend is observable)
    fn delivered(&self) -> Option<Vec<u8>>;
    /// `into_inner()` all the way down to the bytes held by the backend
    fn into_bytes(&mut self) -> Option<R<Vec<u8>>>;
    /// drop the library writer now (its Drop impl flushes)
    fn drop_now(&mut self);
    fn counter(&self) -> Option<u64>;
    fn word_bits(&self) -> usize;
    fn en(&self) -> En;
    fn desc(&self) -> String;
}

// ---------------------------------------------------------------------------------------------
// BitRead/BitWrite over the dyn traits (used as copy peers; they do not
// override copy_to/copy_from, so calling those on them runs the library's
// generic chunked implementation)
// ---------------------------------------------------------------------------------------------

pub struct DynW<'a, E>(pub &'a mut dyn DynWriter, pub PhantomData<E>);
pub struct DynR<'a, E>(pub &'a mut dyn DynReader, pub PhantomData<E>);

impl<'a, E: Endianness> BitWrite<E> for DynW<'a, E> {
    type Error = StrErr;
    fn write_bits(&mut self, value: u64, n: usize) -> Result<usize, StrErr> {
        self.0.write_bits(value, n).map_err(StrErr)
    }
    fn write_unary(&mut self, value: u64) -> Result<usize, StrErr> {
        self.0.write_unary(value).map_err(StrErr)
    }
    fn flush(&mut self) -> Result<usize, StrErr> {
        self.0.flush().map_err(StrErr)
    }
}

impl<'a, E: Endianness> BitRead<E> for DynR<'a, E> {
    type Error = StrErr;
    type PeekWord = u64;
    fn read_bits(&mut self, n: usize) -> Result<u64, StrErr> {
        self.0.read_bits(n).map_err(StrErr)
    }
    fn peek_bits(&mut self, n: usize) -> Result<u64, StrErr> {
        self.0.peek_bits(n).map_err(StrErr)
    }
    fn skip_bits(&mut self, n: usize) -> Result<(), StrErr> {
        self.0.skip_bits(n).map_err(StrErr)
    }
    fn skip_bits_after_peek(&mut self, n: usize) {
        self.0.skip_after_peek(n)
    }
    fn read_unary(&mut self) -> Result<u64, StrErr> {
        self.0.read_unary().map_err(StrErr)
    }
}

/// generic (non specialised) copy between two dyn endpoints
pub fn generic_copy(e: En, r: &mut dyn DynReader, w: &mut dyn DynWriter, n: u64, from_writer_side: bool) -> R<()> {
    match (e, from_writer_side) {
        (En::BE, false) => DynR::<BE>(r, PhantomData).copy_to(&mut DynW::<BE>(w, PhantomData), n).map_err(|e| e.to_string()),
        (En::LE, false) => DynR::<LE>(r, PhantomData).copy_to(&mut DynW::<LE>(w, PhantomData), n).map_err(|e| e.to_string()),
        (En::BE, true) => DynW::<BE>(w, PhantomData).copy_from(&mut DynR::<BE>(r, PhantomData), n).map_err(|e| e.to_string()),
        (En::LE, true) => DynW::<LE>(w, PhantomData).copy_from(&mut DynR::<LE>(r, PhantomData), n).map_err(|e| e.to_string()),
    }
}

// ---------------------------------------------------------------------------------------------
// const-code dispatch over 0..=50
// ---------------------------------------------------------------------------------------------

macro_rules! const_dispatch {
    ($id:expr, $c:ident, $body:expr; $($n:literal)*) => {
        match $id {
            $( $n => { let $c = ConstCode::<$n>; $body } )*
            _ => panic!("harness: const id out of range"),
        }
    };
}
macro_rules! with_const {
    ($id:expr, $c:ident, $body:expr) => {
        const_dispatch!($id, $c, $body;
            0 1 2 3 4 5 6 7 8 9 10 11 12 13 14 15 16 17 18 19 20 21 22 23 24 25
            26 27 28 29 30 31 32 33 34 35 36 37 38 39 40 41 42 43 44 45 46 47 48 49 50)
    };
}

pub fn const_len(id: usize, v: u64) -> usize {
    with_const!(id, c, c.len(v))
}

/// Read / write through `ConstCode<id>` (optionally wrapped in the statistics wrapper).
pub fn const_read<E: Endianness, BR: CodesRead<E>>(id: usize, r: &mut BR, stats: bool, via_static: bool) -> Result<u64, BR::Error> {
    with_const!(id, c, {
        match (stats, via_static) {
            (false, false) => DynamicCodeRead::read(&c, r),
            (false, true) => StaticCodeRead::<E, BR>::read(&c, r),
            (true, false) => DynamicCodeRead::read(&CodesStatsWrapper::<_>::new(c), r),
            (true, true) => StaticCodeRead::<E, BR>::read(&CodesStatsWrapper::<_>::new(c), r),
        }
    })
}

pub fn const_write<E: Endianness, BW: CodesWrite<E>>(id: usize, w: &mut BW, v: u64, stats: bool, via_static: bool) -> Result<usize, BW::Error> {
    with_const!(id, c, {
        match (stats, via_static) {
            (false, false) => DynamicCodeWrite::write(&c, w, v),
            (false, true) => StaticCodeWrite::<E, BW>::write(&c, w, v),
            (true, false) => DynamicCodeWrite::write(&CodesStatsWrapper::<_>::new(c), w, v),
            (true, true) => StaticCodeWrite::<E, BW>::write(&CodesStatsWrapper::<_>::new(c), w, v),
        }
    })
}

// ---------------------------------------------------------------------------------------------
// RBox
// ---------------------------------------------------------------------------------------------

pub struct ROpts<BR> {
    pub bit_pos: Option<fn(&mut BR) -> R<u64>>,
    pub set_bit_pos: Option<fn(&mut BR, u64) -> R<()>>,
    pub io_read: Option<fn(&mut BR, &mut [u8]) -> io::Result<usize>>,
    pub clone: Option<fn(&BR) -> BR>,
    pub counter: Option<fn(&BR) -> u64>,
    pub into_inner: Option<fn(BR)>,
}
impl<BR> Clone for ROpts<BR> {
    fn clone(&self) -> Self {
        *self
    }
}
impl<BR> Copy for ROpts<BR> {}
impl<BR> ROpts<BR> {
    pub fn none() -> Self {
        Self { bit_pos: None, set_bit_pos: None, io_read: None, clone: None, counter: None, into_inner: None }
    }
}

pub fn f_bit_pos<BR: BitSeek>(r: &mut BR) -> R<u64> {
    r.bit_pos().map_err(|e| e.to_string())
}
pub fn f_set_bit_pos<BR: BitSeek>(r: &mut BR, p: u64) -> R<()> {
    r.set_bit_pos(p).map_err(|e| e.to_string())
}
pub fn f_io_read<BR: io::Read>(r: &mut BR, buf: &mut [u8]) -> io::Result<usize> {
    r.read(buf)
}
pub fn f_clone<BR: Clone>(r: &BR) -> BR {
    r.clone()
}
pub fn f_into_inner<E: Endianness, WR: WordRead, RP: dsi_bitstream::codes::params::ReadParams>(r: BufBitReader<E, WR, RP>)
where
    WR::Word: common_traits::DoubleType,
{
    let b = r.into_inner().unwrap();
    drop(b);
}

#[derive(Clone)]
pub struct RMeta {
    pub peek_limit: usize,
    pub word_bits: usize,
    pub buffered: bool,
    pub desc: String,
}

pub struct RBox<E: EnSel, BR> {
    pub r: BR,
    opts: ROpts<BR>,
    meta: RMeta,
    _e: PhantomData<E>,
}

impl<E: EnSel, BR> RBox<E, BR> {
    pub fn new(r: BR, opts: ROpts<BR>, meta: RMeta) -> Self {
        Self { r, opts, meta, _e: PhantomData }
    }
}

impl<E: EnSel, BR: CodesRead<E> + 'static> DynReader for RBox<E, BR> {
    fn read_bits(&mut self, n: usize) -> R<u64> {
        self.r.read_bits(n).map_err(|e| e.to_string())
    }
    fn peek_bits(&mut self, n: usize) -> R<u64> {
        self.r.peek_bits(n).map(|v| v.cast()).map_err(|e| e.to_string())
    }
    fn skip_bits(&mut self, n: usize) -> R<()> {
        self.r.skip_bits(n).map_err(|e| e.to_string())
    }
    fn skip_after_peek(&mut self, n: usize) {
        self.r.skip_bits_after_peek(n)
    }
    fn read_unary(&mut self) -> R<u64> {
        self.r.read_unary().map_err(|e| e.to_string())
    }
    fn read_code(&mut self, op: CodeOp) -> R<u64> {
        let r = &mut self.r;
        (match op {
            CodeOp::Std(c) => match c {
                Code::Unary => r.read_unary(),
                Code::Gamma => r.read_gamma(),
                Code::Delta => r.read_delta(),
                Code::Omega => r.read_omega(),
                Code::Zeta(k) => r.read_zeta(k as usize),
                Code::Pi(k) => r.read_pi(k as usize),
                Code::Golomb(b) => r.read_golomb(b),
                Code::Rice(k) => r.read_rice(k as usize),
                Code::ExpGolomb(k) => r.read_exp_golomb(k as usize),
                Code::MinBin(u) => r.read_minimal_binary(u),
                Code::VByteBe => r.read_vbyte_be(),
                Code::VByteLe => r.read_vbyte_le(),
            },
            CodeOp::GammaP(true) => r.read_gamma_param::<true>(),
            CodeOp::GammaP(false) => r.read_gamma_param::<false>(),
            CodeOp::DeltaP(false, false) => r.read_delta_param::<false, false>(),
            CodeOp::DeltaP(false, true) => r.read_delta_param::<false, true>(),
            CodeOp::DeltaP(true, false) => r.read_delta_param::<true, false>(),
            CodeOp::DeltaP(true, true) => r.read_delta_param::<true, true>(),
            CodeOp::Zeta3P(true) => r.read_zeta3_param::<true>(),
            CodeOp::Zeta3P(false) => r.read_zeta3_param::<false>(),
            CodeOp::ZetaKP(k, _) => r.read_zeta_param(k as usize),
            CodeOp::Zeta3Def => r.read_zeta3(),
        })
        .map_err(|e| e.to_string())
    }
    fn bit_pos(&mut self) -> Option<R<u64>> {
        self.opts.bit_pos.map(|f| f(&mut self.r))
    }
    fn set_bit_pos(&mut self, p: u64) -> Option<R<()>> {
        self.opts.set_bit_pos.map(|f| f(&mut self.r, p))
    }
    fn io_read(&mut self, len: usize) -> Option<R<Vec<u8>>> {
        self.opts.io_read.map(|f| {
            let mut buf = vec![0xA5u8; len];
            match f(&mut self.r, &mut buf) {
                Ok(n) => {
                    if n != len {
                        Err(format!("short-count {} of {}", n, len))
                    } else {
                        Ok(buf)
                    }
                }
                Err(e) => Err(format!("io:{:?}", e.kind())),
            }
        })
    }
    fn try_clone(&self) -> Option<Box<dyn DynReader>> {
        self.opts.clone.map(|f| {
            Box::new(RBox::<E, BR> { r: f(&self.r), opts: self.opts, meta: self.meta.clone(), _e: PhantomData })
                as Box<dyn DynReader>
        })
    }
    fn copy_to(&mut self, w: &mut dyn DynWriter, n: u64) -> R<()> {
        self.r.copy_to(&mut DynW::<E>(w, PhantomData), n).map_err(|e| e.to_string())
    }
    fn counter(&self) -> Option<u64> {
        self.opts.counter.map(|f| f(&self.r))
    }
    fn consume(self: Box<Self>) -> bool {
        let this = *self;
        match this.opts.into_inner {
            Some(f) => {
                f(this.r);
                true
            }
            None => false,
        }
    }
    fn peek_limit(&self) -> usize {
        self.meta.peek_limit
    }
    fn word_bits(&self) -> usize {
        self.meta.word_bits
    }
    fn buffered(&self) -> bool {
        self.meta.buffered
    }
    fn en(&self) -> En {
        E::EN
    }
    fn desc(&self) -> String {
        self.meta.desc.clone()
    }
}

// ---------------------------------------------------------------------------------------------
// WBox
// ---------------------------------------------------------------------------------------------

pub struct WOpts<BW> {
    pub io_write: Option<fn(&mut BW, &[u8]) -> io::Result<usize>>,
    pub io_write_all: Option<fn(&mut BW, &[u8]) -> io::Result<()>>,
    pub io_flush: Option<fn(&mut BW) -> io::Result<()>>,
    pub into_bytes: Option<fn(BW) -> R<Vec<u8>>>,
    pub counter: Option<fn(&BW) -> u64>,
}
impl<BW> WOpts<BW> {
    pub fn none() -> Self {
        Self { io_write: None, io_write_all: None, io_flush: None, into_bytes: None, counter: None }
    }
}
pub fn f_io_write<BW: io::Write>(w: &mut BW, b: &[u8]) -> io::Result<usize> {
    w.write(b)
}
pub fn f_io_write_all<BW: io::Write>(w: &mut BW, b: &[u8]) -> io::Result<()> {
    w.write_all(b)
}
pub fn f_io_flush<BW: io::Write>(w: &mut BW) -> io::Result<()> {
    io::Write::flush(w)
}

pub struct WBox<E: EnSel, BW> {
    pub w: Option<BW>,
    opts: WOpts<BW>,
    delivered: Option<Box<dyn Fn() -> Vec<u8>>>,
    word_bits: usize,
    desc: String,
    _e: PhantomData<E>,
}

impl<E: EnSel, BW> WBox<E, BW> {
    pub fn new(w: BW, opts: WOpts<BW>, delivered: Option<Box<dyn Fn() -> Vec<u8>>>, word_bits: usize, desc: String) -> Self {
        Self { w: Some(w), opts, delivered, word_bits, desc, _e: PhantomData }
    }
    fn w(&mut self) -> &mut BW {
        self.w.as_mut().expect("harness: writer already consumed")
    }
}

impl<E: EnSel, BW> DynWriter for WBox<E, BW>
where
    BW: CodesWrite<E> + GammaWriteParam<E> + DeltaWriteParam<E> + ZetaWriteParam<E> + 'static,
{
    fn write_bits(&mut self, v: u64, n: usize) -> R<usize> {
        self.w().write_bits(v, n).map_err(|e| e.to_string())
    }
    fn write_unary(&mut self, x: u64) -> R<usize> {
        self.w().write_unary(x).map_err(|e| e.to_string())
    }
    fn flush(&mut self) -> R<usize> {
        self.w().flush().map_err(|e| e.to_string())
    }
    fn write_code(&mut self, op: CodeOp, v: u64) -> R<usize> {
        let w = self.w();
        (match op {
            CodeOp::Std(c) => match c {
                Code::Unary => w.write_unary(v),
                Code::Gamma => w.write_gamma(v),
                Code::Delta => w.write_delta(v),
                Code::Omega => w.write_omega(v),
                Code::Zeta(k) => w.write_zeta(v, k as usize),
                Code::Pi(k) => w.write_pi(v, k as usize),
                Code::Golomb(b) => w.write_golomb(v, b),
                Code::Rice(k) => w.write_rice(v, k as usize),
                Code::ExpGolomb(k) => w.write_exp_golomb(v, k as usize),
                Code::MinBin(u) => w.write_minimal_binary(v, u),
                Code::VByteBe => w.write_vbyte_be(v),
                Code::VByteLe => w.write_vbyte_le(v),
            },
            CodeOp::GammaP(true) => w.write_gamma_param::<true>(v),
            CodeOp::GammaP(false) => w.write_gamma_param::<false>(v),
            CodeOp::DeltaP(false, false) => w.write_delta_param::<false, false>(v),
            CodeOp::DeltaP(false, true) => w.write_delta_param::<false, true>(v),
            CodeOp::DeltaP(true, false) => w.write_delta_param::<true, false>(v),
            CodeOp::DeltaP(true, true) => w.write_delta_param::<true, true>(v),
            CodeOp::Zeta3P(true) => w.write_zeta3_param::<true>(v),
            CodeOp::Zeta3P(false) => w.write_zeta3_param::<false>(v),
            CodeOp::ZetaKP(k, true) => w.write_zeta_param::<true>(v, k as usize),
            CodeOp::ZetaKP(k, false) => w.write_zeta_param::<false>(v, k as usize),
            CodeOp::Zeta3Def => w.write_zeta3(v),
        })
        .map_err(|e| e.to_string())
    }
    fn io_write_all(&mut self, buf: &[u8]) -> Option<R<()>> {
        let f = self.opts.io_write_all?;
        Some(f(self.w(), buf).map_err(|e| format!("io:{:?}", e.kind())))
    }
    fn io_write(&mut self, buf: &[u8]) -> Option<R<usize>> {
        let f = self.opts.io_write?;
        Some(f(self.w(), buf).map_err(|e| format!("io:{:?}", e.kind())))
    }
    fn io_flush(&mut self) -> Option<R<()>> {
        let f = self.opts.io_flush?;
        Some(f(self.w(), ).map_err(|e| format!("io:{:?}", e.kind())))
    }
    fn copy_from(&mut self, r: &mut dyn DynReader, n: u64) -> R<()> {
        self.w().copy_from(&mut DynR::<E>(r, PhantomData), n).map_err(|e| e.to_string())
    }
    fn delivered(&self) -> Option<Vec<u8>> {
        self.delivered.as_ref().map(|f| f())
    }
    fn into_bytes(&mut self) -> Option<R<Vec<u8>>> {
        let f = self.opts.into_bytes?;
        let w = self.w.take().expect("harness: writer already consumed");
        Some(f(w))
    }
    fn drop_now(&mut self) {
        self.w = None;
    }
    fn counter(&self) -> Option<u64> {
        match (self.opts.counter, self.w.as_ref()) {
            (Some(f), Some(w)) => Some(f(w)),
            _ => None,
        }
    }
    fn word_bits(&self) -> usize {
        self.word_bits
    }
    fn en(&self) -> En {
        E::EN
    }
    fn desc(&self) -> String {
        self.desc.clone()
    }
}

// ---------------------------------------------------------------------------------------------
// configuration matrices
// ---------------------------------------------------------------------------------------------

#[derive(Clone, Copy, Debug, PartialEq, Eq, Hash, PartialOrd, Ord)]
pub enum RKind {
    Buf8,
    Buf16,
    Buf32,
    Buf64,
    Unbuf,
}
impl RKind {
    pub const ALL: [RKind; 5] = [RKind::Buf8, RKind::Buf16, RKind::Buf32, RKind::Buf64, RKind::Unbuf];
    pub const BUFFERED: [RKind; 4] = [RKind::Buf8, RKind::Buf16, RKind::Buf32, RKind::Buf64];
    pub fn word_bits(self) -> usize {
        match self {
            RKind::Buf8 => 8,
            RKind::Buf16 => 16,
            RKind::Buf32 => 32,
            RKind::Buf64 | RKind::Unbuf => 64,
        }
    }
    pub fn word_bytes(self) -> usize {
        self.word_bits() / 8
    }
    pub fn buffered(self) -> bool {
        self != RKind::Unbuf
    }
    pub fn name(self) -> &'static str {
        match self {
            RKind::Buf8 => "buf-u8",
            RKind::Buf16 => "buf-u16",
            RKind::Buf32 => "buf-u32",
            RKind::Buf64 => "buf-u64",
            RKind::Unbuf => "unbuf-u64",
        }
    }
    /// peek_bits(n) is promised for n up to this (C02)
    pub fn peek_limit(self) -> usize {
        match self {
            RKind::Unbuf => 32,
            k => k.word_bits(),
        }
    }
}

#[derive(Clone, Copy, Debug, PartialEq, Eq, Hash)]
pub enum RBackend {
    /// recording backend, zero-extended
    RecZ,
    /// recording backend, strict
    RecS,
    /// MemWordReader::new (zero-extended)
    MemZ,
    /// MemWordReader::new_strict
    MemS,
    /// MemWordWriterVec read back
    WVec,
    /// MemWordWriterSlice read back
    WSlice,
    /// WordAdapter over Cursor<Vec<u8>>
    AdCursor,
    /// WordAdapter over BufReader<Cursor<Vec<u8>>> (small internal buffer)
    AdBufReader,
    /// WordAdapter over a byte source that behaves as std::io::Read allows: short reads of 1..W-1
    /// bytes and Interrupted errors, in a fixed pseudo-random pattern
    AdHostile,
}
impl RBackend {
    pub const ALL: [RBackend; 9] = [
        RBackend::RecZ,
        RBackend::RecS,
        RBackend::MemZ,
        RBackend::MemS,
        RBackend::WVec,
        RBackend::WSlice,
        RBackend::AdCursor,
        RBackend::AdBufReader,
        RBackend::AdHostile,
    ];
    pub const ZEXT: [RBackend; 2] = [RBackend::RecZ, RBackend::MemZ];
    pub const STRICT: [RBackend; 7] =
        [RBackend::RecS, RBackend::MemS, RBackend::WVec, RBackend::WSlice, RBackend::AdCursor, RBackend::AdBufReader, RBackend::AdHostile];
    pub fn zext(self) -> bool {
        matches!(self, RBackend::RecZ | RBackend::MemZ)
    }
    pub fn name(self) -> &'static str {
        match self {
            RBackend::RecZ => "rec-zext",
            RBackend::RecS => "rec-strict",
            RBackend::MemZ => "mem-zext",
            RBackend::MemS => "mem-strict",
            RBackend::WVec => "wvec",
            RBackend::WSlice => "wslice",
            RBackend::AdCursor => "adapter-cursor",
            RBackend::AdBufReader => "adapter-bufreader",
            RBackend::AdHostile => "adapter-hostile",
        }
    }
}

#[derive(Clone, Copy, Debug, PartialEq, Eq, Hash)]
pub struct RCfg {
    pub e: En,
    pub kind: RKind,
    pub be: RBackend,
}
impl RCfg {
    pub fn name(&self) -> String {
        format!("{}/{}/{}", self.e.name(), self.kind.name(), self.be.name())
    }
    pub fn all() -> Vec<RCfg> {
        let mut v = vec![];
        for e in En::BOTH {
            for kind in RKind::ALL {
                for be in RBackend::ALL {
                    v.push(RCfg { e, kind, be });
                }
            }
        }
        v
    }
}

pub struct ReaderHandle {
    pub r: Box<dyn DynReader>,
    pub log: Option<SharedReadLog>,
    pub cfg: RCfg,
}

macro_rules! mk_reader {
    ($E:ty, $r:expr, $kind:expr, $desc:expr; $($cap:ident),*) => {{
        #[allow(unused_mut)]
        let mut o = ROpts::none();
        $( mk_reader!(@cap o, $cap); )*
        let meta = RMeta { peek_limit: $kind.peek_limit(), word_bits: $kind.word_bits(), buffered: $kind.buffered(), desc: $desc };
        Box::new(RBox::<$E, _>::new($r, o, meta)) as Box<dyn DynReader>
    }};
    (@cap $o:ident, seek) => { $o.bit_pos = Some(f_bit_pos); $o.set_bit_pos = Some(f_set_bit_pos); };
    (@cap $o:ident, io) => { $o.io_read = Some(f_io_read); };
    (@cap $o:ident, clone) => { $o.clone = Some(f_clone); };
    (@cap $o:ident, inner) => { $o.into_inner = Some(f_into_inner); };
}

macro_rules! reader_backends {
    ($E:ty, $W:ty, $ctor:ident, $cfg:expr, $image:expr; $($x:ident),*) => {{
        let cfg: RCfg = $cfg;
        let image: &[u8] = $image;
        let desc = cfg.name();
        match cfg.be {
            RBackend::RecZ | RBackend::RecS => {
                let (b, log) = RecWordRead::<$W>::new(image, cfg.be == RBackend::RecZ);
                (mk_reader!($E, $ctor::<$E, _>::new(b), cfg.kind, desc; seek, io, clone $(, $x)*), Some(log))
            }
            RBackend::MemZ => {
                let words: Vec<$W> = words_from_bytes(image);
                // the library's zero-extended reader, behind a call counter (it can never report an error,
                // so a reader that runs away over the extension would otherwise spin forever)
                let budget = 50_000 + 64 * words.len() as u64;
                (mk_reader!($E, $ctor::<$E, _>::new(Budgeted::new(MemWordReader::new(words), budget)), cfg.kind, desc; seek, io, clone $(, $x)*), None)
            }
            RBackend::MemS => {
                let words: Vec<$W> = words_from_bytes(image);
                (mk_reader!($E, $ctor::<$E, _>::new(MemWordReader::new_strict(words)), cfg.kind, desc; seek, io, clone $(, $x)*), None)
            }
            RBackend::WVec => {
                let words: Vec<$W> = words_from_bytes(image);
                (mk_reader!($E, $ctor::<$E, _>::new(MemWordWriterVec::new(words)), cfg.kind, desc; seek, io $(, $x)*), None)
            }
            RBackend::WSlice => {
                let words: Vec<$W> = words_from_bytes(image);
                (mk_reader!($E, $ctor::<$E, _>::new(MemWordWriterSlice::new(words)), cfg.kind, desc; seek, io $(, $x)*), None)
            }
            RBackend::AdCursor => {
                let c = io::Cursor::new(image.to_vec());
                (mk_reader!($E, $ctor::<$E, _>::new(WordAdapter::<$W, _>::new(c)), cfg.kind, desc; seek, io, clone $(, $x)*), None)
            }
            RBackend::AdBufReader => {
                let c = io::BufReader::with_capacity(5, io::Cursor::new(image.to_vec()));
                (mk_reader!($E, $ctor::<$E, _>::new(WordAdapter::<$W, _>::new(c)), cfg.kind, desc; seek, io $(, $x)*), None)
            }
            RBackend::AdHostile => {
                let wb = <$W as HWord>::NBYTES;
                let mut x = 0x9E37_79B9_7F4A_7C15u64 ^ image.len() as u64;
                let sched: Vec<Fault> = (0..512)
                    .map(|_| {
                        x ^= x << 13;
                        x ^= x >> 7;
                        x ^= x << 17;
                        match x % 5 {
                            0 => Fault::Interrupted,
                            1 => Fault::Limit(1),
                            2 => Fault::Limit(1.max(wb - 1)),
                            3 => Fault::Limit(1.max(wb / 2)),
                            _ => Fault::Limit(wb),
                        }
                    })
                    .collect();
                let c = FaultyIo::new(image.to_vec(), sched, Fault::Limit(1.max(wb / 2)));
                (mk_reader!($E, $ctor::<$E, _>::new(WordAdapter::<$W, _>::new(c)), cfg.kind, desc; seek, io $(, $x)*), None)
            }
        }
    }};
}

/// Build a reader of the given configuration over a byte image (whose length
/// must be a multiple of the reader's word size).
pub fn make_reader(cfg: RCfg, image: &[u8]) -> ReaderHandle {
    let (r, log) = match (cfg.e, cfg.kind) {
        (En::BE, RKind::Buf8) => reader_backends!(BE, u8, BufBitReader, cfg, image; inner),
        (En::BE, RKind::Buf16) => reader_backends!(BE, u16, BufBitReader, cfg, image; inner),
        (En::BE, RKind::Buf32) => reader_backends!(BE, u32, BufBitReader, cfg, image; inner),
        (En::BE, RKind::Buf64) => reader_backends!(BE, u64, BufBitReader, cfg, image; inner),
        (En::BE, RKind::Unbuf) => reader_backends!(BE, u64, BitReader, cfg, image;),
        (En::LE, RKind::Buf8) => reader_backends!(LE, u8, BufBitReader, cfg, image; inner),
        (En::LE, RKind::Buf16) => reader_backends!(LE, u16, BufBitReader, cfg, image; inner),
        (En::LE, RKind::Buf32) => reader_backends!(LE, u32, BufBitReader, cfg, image; inner),
        (En::LE, RKind::Buf64) => reader_backends!(LE, u64, BufBitReader, cfg, image; inner),
        (En::LE, RKind::Unbuf) => reader_backends!(LE, u64, BitReader, cfg, image;),
    };
    ReaderHandle { r, log, cfg }
}

/// Byte-stream backends over a source whose length is not a multiple of the word size
/// (only AdCursor / AdBufReader make sense here).
pub fn make_reader_unaligned(cfg: RCfg, bytes: &[u8]) -> ReaderHandle {
    assert!(matches!(cfg.be, RBackend::AdCursor | RBackend::AdBufReader | RBackend::AdHostile));
    make_reader(cfg, bytes)
}

// ---- writers ----------------------------------------------------------------------------------

#[derive(Clone, Copy, Debug, PartialEq, Eq, Hash)]
pub enum WWord {
    U8,
    U16,
    U32,
    U64,
    U128,
}
impl WWord {
    pub const ALL: [WWord; 5] = [WWord::U8, WWord::U16, WWord::U32, WWord::U64, WWord::U128];
    pub fn bits(self) -> usize {
        match self {
            WWord::U8 => 8,
            WWord::U16 => 16,
            WWord::U32 => 32,
            WWord::U64 => 64,
            WWord::U128 => 128,
        }
    }
    pub fn bytes(self) -> usize {
        self.bits() / 8
    }
    pub fn name(self) -> &'static str {
        match self {
            WWord::U8 => "u8",
            WWord::U16 => "u16",
            WWord::U32 => "u32",
            WWord::U64 => "u64",
            WWord::U128 => "u128",
        }
    }
}

#[derive(Clone, Copy, Debug, PartialEq, Eq, Hash)]
pub enum WBackend {
    /// recording backend (optionally with a capacity in words)
    Rec(Option<usize>),
    /// MemWordWriterVec over an owned Vec
    VecOwned,
    /// MemWordWriterSlice over a preallocated buffer of this many words
    Slice(usize),
    /// WordAdapter over Vec<u8>
    AdVec,
    /// WordAdapter over a shared sink (observable after drop)
    AdSink,
    /// WordAdapter over a sink that legally accepts at most this many bytes per write call
    AdShort(usize),
    /// MemWordWriterVec over an owned Vec that already holds (non-zero) words: a reused buffer
    VecDirty,
}
impl WBackend {
    pub fn name(self) -> String {
        match self {
            WBackend::Rec(None) => "rec".into(),
            WBackend::Rec(Some(c)) => format!("rec-cap{}", c),
            WBackend::VecOwned => "vec".into(),
            WBackend::VecDirty => "vec-dirty".into(),
            WBackend::Slice(c) => format!("slice{}", c),
            WBackend::AdVec => "adapter-vec".into(),
            WBackend::AdSink => "adapter-sink".into(),
            WBackend::AdShort(m) => format!("adapter-short{}", m),
        }
    }
    pub fn class(self) -> &'static str {
        match self {
            WBackend::Rec(_) => "rec",
            WBackend::VecOwned => "vec",
            WBackend::VecDirty => "vec-dirty",
            WBackend::Slice(_) => "slice",
            WBackend::AdVec => "adapter-vec",
            WBackend::AdSink => "adapter-sink",
            WBackend::AdShort(_) => "adapter-short",
        }
    }
}

#[derive(Clone, Copy, Debug, PartialEq, Eq, Hash)]
pub struct WCfg {
    pub e: En,
    pub w: WWord,
    pub be: WBackend,
}
impl WCfg {
    pub fn name(&self) -> String {
        format!("{}/{}/{}", self.e.name(), self.w.name(), self.be.name())
    }
}

pub struct WriterHandle {
    pub w: Box<dyn DynWriter>,
    pub log: Option<SharedWriteLog>,
    pub cfg: WCfg,
}

macro_rules! mk_writer {
    ($E:ty, $W:ty, $w:expr, $delivered:expr, $desc:expr, $ib:expr) => {{
        let mut o = WOpts::none();
        o.io_write = Some(f_io_write);
        o.io_write_all = Some(f_io_write_all);
        o.io_flush = Some(f_io_flush);
        o.into_bytes = Some($ib);
        Box::new(WBox::<$E, _>::new($w, o, $delivered, <$W as HWord>::NBITS, $desc)) as Box<dyn DynWriter>
    }};
}

macro_rules! writer_backends {
    ($E:ty, $W:ty, $cfg:expr) => {{
        let cfg: WCfg = $cfg;
        let desc = cfg.name();
        match cfg.be {
            WBackend::Rec(cap) => {
                let (b, log) = RecWordWrite::<$W>::new(cap);
                let l2 = log.clone();
                let d: Option<Box<dyn Fn() -> Vec<u8>>> = Some(Box::new(move || l2.borrow().bytes.clone()));
                (
                    mk_writer!($E, $W, BufBitWriter::<$E, _>::new(b), d, desc, |w: BufBitWriter<$E, RecWordWrite<$W>>| -> R<Vec<u8>> {
                        let b = w.into_inner().map_err(|e| e.to_string())?;
                        let v = b.log.borrow().bytes.clone();
                        Ok(v)
                    }),
                    Some(log),
                )
            }
            WBackend::VecOwned => (
                mk_writer!($E, $W, BufBitWriter::<$E, _>::new(MemWordWriterVec::new(Vec::<$W>::new())), None, desc, |w: BufBitWriter<
                    $E,
                    MemWordWriterVec<$W, Vec<$W>>,
                >|
                 -> R<Vec<u8>> {
                    let b = w.into_inner().map_err(|e| e.to_string())?;
                    Ok(bytes_from_words(&b.into_inner()))
                }),
                None,
            ),
            WBackend::VecDirty => (
                mk_writer!($E, $W, BufBitWriter::<$E, _>::new(MemWordWriterVec::new(vec![<$W>::MAX; 24])), None, desc, |w: BufBitWriter<
                    $E,
                    MemWordWriterVec<$W, Vec<$W>>,
                >|
                 -> R<Vec<u8>> {
                    let mut b = w.into_inner().map_err(|e| e.to_string())?;
                    // the words written so far are the image; whatever the vector held beyond them stays
                    let pos = b.word_pos().map_err(|e| e.to_string())? as usize;
                    let all = b.into_inner();
                    if all.len() < pos || all[pos..].iter().any(|x| *x != <$W>::MAX) {
                        return Err(format!("words beyond the cursor were altered: {:x?}", &all[pos.min(all.len())..]));
                    }
                    Ok(bytes_from_words(&all[..pos]))
                }),
                None,
            ),
            WBackend::Slice(n) => (
                mk_writer!($E, $W, BufBitWriter::<$E, _>::new(MemWordWriterSlice::new(vec![<$W>::MAX; n])), None, desc, |w: BufBitWriter<
                    $E,
                    MemWordWriterSlice<$W, Vec<$W>>,
                >|
                 -> R<Vec<u8>> {
                    let mut b = w.into_inner().map_err(|e| e.to_string())?;
                    // only the words actually written are part of the image
                    let pos = b.word_pos().map_err(|e| e.to_string())? as usize;
                    let all = b.into_inner();
                    Ok(bytes_from_words(&all[..pos]))
                }),
                None,
            ),
            WBackend::AdVec => (
                mk_writer!($E, $W, BufBitWriter::<$E, _>::new(WordAdapter::<$W, _>::new(Vec::<u8>::new())), None, desc, |w: BufBitWriter<
                    $E,
                    WordAdapter<$W, Vec<u8>>,
                >|
                 -> R<Vec<u8>> {
                    let b = w.into_inner().map_err(|e| e.to_string())?;
                    Ok(b.into_inner())
                }),
                None,
            ),
            WBackend::AdShort(m) => (
                mk_writer!(
                    $E,
                    $W,
                    BufBitWriter::<$E, _>::new(WordAdapter::<$W, _>::new(FaultyIo::new(vec![], vec![], Fault::Limit(m.max(1))))),
                    None,
                    desc,
                    |w: BufBitWriter<$E, WordAdapter<$W, FaultyIo>>| -> R<Vec<u8>> {
                        let b = w.into_inner().map_err(|e| e.to_string())?;
                        Ok(b.into_inner().data)
                    }
                ),
                None,
            ),
            WBackend::AdSink => {
                let sink = SharedSink::default();
                let s2 = sink.clone();
                let d: Option<Box<dyn Fn() -> Vec<u8>>> = Some(Box::new(move || s2.0.borrow().clone()));
                (
                    mk_writer!($E, $W, BufBitWriter::<$E, _>::new(WordAdapter::<$W, _>::new(sink)), d, desc, |w: BufBitWriter<
                        $E,
                        WordAdapter<$W, SharedSink>,
                    >|
                     -> R<Vec<u8>> {
                        let b = w.into_inner().map_err(|e| e.to_string())?;
                        let v = b.into_inner().0.borrow().clone();
                        Ok(v)
                    }),
                    None,
                )
            }
        }
    }};
}

pub fn make_writer(cfg: WCfg) -> WriterHandle {
    let (w, log) = match (cfg.e, cfg.w) {
        (En::BE, WWord::U8) => writer_backends!(BE, u8, cfg),
        (En::BE, WWord::U16) => writer_backends!(BE, u16, cfg),
        (En::BE, WWord::U32) => writer_backends!(BE, u32, cfg),
        (En::BE, WWord::U64) => writer_backends!(BE, u64, cfg),
        (En::BE, WWord::U128) => writer_backends!(BE, u128, cfg),
        (En::LE, WWord::U8) => writer_backends!(LE, u8, cfg),
        (En::LE, WWord::U16) => writer_backends!(LE, u16, cfg),
        (En::LE, WWord::U32) => writer_backends!(LE, u32, cfg),
        (En::LE, WWord::U64) => writer_backends!(LE, u64, cfg),
        (En::LE, WWord::U128) => writer_backends!(LE, u128, cfg),
    };
    WriterHandle { w, log, cfg }
}

/// convenience: a recording writer
pub fn rec_writer(e: En, w: WWord) -> WriterHandle {
    make_writer(WCfg { e, w, be: WBackend::Rec(None) })
}

#[allow(dead_code)]
pub fn unused_rc() -> Rc<()> {
    Rc::new(())
}

// ---------------------------------------------------------------------------------------------
// counting / tracing wrappers (C14)
// ---------------------------------------------------------------------------------------------

#[derive(Clone, Copy, Debug, PartialEq, Eq, Hash)]
pub enum Wrap {
    Count,
    CountPrint,
    Dbg,
}
impl Wrap {
    pub const ALL: [Wrap; 3] = [Wrap::Count, Wrap::CountPrint, Wrap::Dbg];
    pub fn name(self) -> &'static str {
        match self {
            Wrap::Count => "CountBit",
            Wrap::CountPrint => "CountBit<PRINT>",
            Wrap::Dbg => "DbgBit",
        }
    }
}

macro_rules! wrapped_writer {
    ($E:ty, $W:ty, $wrap:expr, $desc:expr) => {{
        let (b, log) = RecWordWrite::<$W>::new(None);
        let l2 = log.clone();
        let d: Option<Box<dyn Fn() -> Vec<u8>>> = Some(Box::new(move || l2.borrow().bytes.clone()));
        let inner = BufBitWriter::<$E, _>::new(b);
        let w: Box<dyn DynWriter> = match $wrap {
            Wrap::Count => {
                let mut o = WOpts::none();
                o.counter = Some(|w: &CountBitWriter<$E, BufBitWriter<$E, RecWordWrite<$W>>, false>| w.bits_written as u64);
                o.into_bytes = Some(|w: CountBitWriter<$E, BufBitWriter<$E, RecWordWrite<$W>>, false>| -> R<Vec<u8>> {
                    let b = w.into_inner().into_inner().map_err(|e| e.to_string())?;
                    let v = b.log.borrow().bytes.clone();
                    Ok(v)
                });
                Box::new(WBox::<$E, _>::new(CountBitWriter::<$E, _, false>::new(inner), o, d, <$W as HWord>::NBITS, $desc))
            }
            Wrap::CountPrint => {
                let mut o = WOpts::none();
                o.counter = Some(|w: &CountBitWriter<$E, BufBitWriter<$E, RecWordWrite<$W>>, true>| w.bits_written as u64);
                Box::new(WBox::<$E, _>::new(CountBitWriter::<$E, _, true>::new(inner), o, d, <$W as HWord>::NBITS, $desc))
            }
            Wrap::Dbg => Box::new(WBox::<$E, _>::new(DbgBitWriter::<$E, _>::new(inner), WOpts::none(), d, <$W as HWord>::NBITS, $desc)),
        };
        (w, Some(log))
    }};
}

/// A writer wrapped in a counting / tracing wrapper, over the recording backend.
pub fn make_wrapped_writer(e: En, w: WWord, wrap: Wrap) -> WriterHandle {
    let desc = format!("{}/{}/{}", e.name(), w.name(), wrap.name());
    let (wr, log) = match (e, w) {
        (En::BE, WWord::U16) => wrapped_writer!(BE, u16, wrap, desc),
        (En::LE, WWord::U16) => wrapped_writer!(LE, u16, wrap, desc),
        (En::BE, _) => wrapped_writer!(BE, u64, wrap, desc),
        (En::LE, _) => wrapped_writer!(LE, u64, wrap, desc),
    };
    WriterHandle { w: wr, log, cfg: WCfg { e, w, be: WBackend::Rec(None) } }
}

macro_rules! wrapped_reader {
    ($E:ty, $W:ty, $ctor:ident, $wrap:expr, $kind:expr, $image:expr, $desc:expr) => {{
        let (b, log) = RecWordRead::<$W>::new($image, true);
        let inner = $ctor::<$E, _>::new(b);
        let meta = RMeta { peek_limit: $kind.peek_limit(), word_bits: $kind.word_bits(), buffered: $kind.buffered(), desc: $desc };
        let r: Box<dyn DynReader> = match $wrap {
            Wrap::Count => {
                let mut o = ROpts::none();
                o.counter = Some(|r: &CountBitReader<$E, $ctor<$E, RecWordRead<$W>>, false>| r.bits_read as u64);
                o.bit_pos = Some(f_bit_pos);
                o.set_bit_pos = Some(f_set_bit_pos);
                o.clone = Some(f_clone);
                Box::new(RBox::<$E, _>::new(CountBitReader::<$E, _, false>::new(inner), o, meta))
            }
            Wrap::CountPrint => {
                let mut o = ROpts::none();
                o.counter = Some(|r: &CountBitReader<$E, $ctor<$E, RecWordRead<$W>>, true>| r.bits_read as u64);
                o.bit_pos = Some(f_bit_pos);
                Box::new(RBox::<$E, _>::new(CountBitReader::<$E, _, true>::new(inner), o, meta))
            }
            Wrap::Dbg => Box::new(RBox::<$E, _>::new(DbgBitReader::<$E, _>::new(inner), ROpts::none(), meta)),
        };
        (r, Some(log))
    }};
}

/// A reader wrapped in a counting / tracing wrapper, over the zero-extended recording backend.
pub fn make_wrapped_reader(e: En, kind: RKind, wrap: Wrap, image: &[u8]) -> ReaderHandle {
    let desc = format!("{}/{}/{}", e.name(), kind.name(), wrap.name());
    let (r, log) = match (e, kind) {
        (En::BE, RKind::Buf16) => wrapped_reader!(BE, u16, BufBitReader, wrap, kind, image, desc),
        (En::LE, RKind::Buf16) => wrapped_reader!(LE, u16, BufBitReader, wrap, kind, image, desc),
        (En::BE, RKind::Buf64) => wrapped_reader!(BE, u64, BufBitReader, wrap, kind, image, desc),
        (En::LE, RKind::Buf64) => wrapped_reader!(LE, u64, BufBitReader, wrap, kind, image, desc),
        (En::BE, RKind::Unbuf) => wrapped_reader!(BE, u64, BitReader, wrap, kind, image, desc),
        (En::LE, RKind::Unbuf) => wrapped_reader!(LE, u64, BitReader, wrap, kind, image, desc),
        (En::BE, _) => wrapped_reader!(BE, u32, BufBitReader, wrap, RKind::Buf32, image, desc),
        (En::LE, _) => wrapped_reader!(LE, u32, BufBitReader, wrap, RKind::Buf32, image, desc),
    };
    ReaderHandle { r, log, cfg: RCfg { e, kind, be: RBackend::RecZ } }
}
