//! Validation of the reference model against material that is not the code
//! under test: the codeword tables and examples in the library documentation,
//! literal vectors extracted from the repository's regression tests and the
//! reference functions of python/gen_code_tables.py (both prepared by
//! tools/gen_selftest_vectors.py into a text file), plus internal consistency
//! of the model (encode -> decode identity, closed-form length = bits
//! produced, Kraft equality on complete prefixes).
//!
//! A failure here is a harness error (inconclusive), never a violation.

use crate::model::*;

fn s(e: En, c: Code, v: u64) -> String {
    bits_to_string(&encode(e, c, v))
}

/// strings in the docs for LE are written with the first stream bit rightmost
fn rev(x: &str) -> String {
    x.chars().rev().collect()
}

pub fn run(vectors: Option<&str>) -> Result<u64, String> {
    let mut n: u64 = 0;
    macro_rules! chk {
        ($cond:expr, $($arg:tt)*) => {{ n += 1; if !($cond) { return Err(format!($($arg)*)); } }};
    }

    // --- table in src/codes/mod.rs (unary, gamma, delta for 0..=7, BE) ---
    let unary = ["1", "01", "001", "0001", "00001", "000001", "0000001", "00000001"];
    let gamma = ["1", "010", "011", "00100", "00101", "00110", "00111", "0001000"];
    let delta = ["1", "0100", "0101", "01100", "01101", "01110", "01111", "00100000"];
    for v in 0..8u64 {
        chk!(s(En::BE, Code::Unary, v) == unary[v as usize], "doc table unary {}", v);
        chk!(s(En::BE, Code::Gamma, v) == gamma[v as usize], "doc table gamma {}", v);
        chk!(s(En::BE, Code::Delta, v) == delta[v as usize], "doc table delta {}", v);
    }
    // gamma of 4: 00101 BE, 01100 LE (LE strings have the first bit rightmost)
    chk!(s(En::LE, Code::Gamma, 4) == rev("01100"), "doc gamma(4) LE: {}", s(En::LE, Code::Gamma, 4));
    // minimal binary with bound 7: 00 010 011 100 101 110 111; 2 is 011 (BE) / 101 (LE)
    let mb7 = ["00", "010", "011", "100", "101", "110", "111"];
    for v in 0..7u64 {
        chk!(s(En::BE, Code::MinBin(7), v) == mb7[v as usize], "doc minbin7 {}", v);
    }
    chk!(s(En::LE, Code::MinBin(7), 2) == rev("101"), "doc minbin7(2) LE");
    // omega: 10 is formed by the blocks 11, 1011 and 0 (the string printed in the
    // module doc, 1110010, does not match its own blocks: doc typo), 0011111 (LE)
    chk!(s(En::BE, Code::Omega, 10) == "1110110", "doc omega(10) BE");
    chk!(s(En::LE, Code::Omega, 10) == rev("0011111"), "doc omega(10) LE: {}", s(En::LE, Code::Omega, 10));
    chk!(s(En::BE, Code::Omega, 0) == "0", "doc omega(0)");
    // vbyte: intervals [0,2^7) one byte, [2^7, 2^7+2^14) two bytes, ...
    chk!(vbyte_bytes(0, true) == vec![0], "vbyte 0");
    chk!(vbyte_bytes(127, true) == vec![0x7f], "vbyte 127");
    chk!(vbyte_bytes(128, true) == vec![0x80, 0x00], "vbyte 128 be");
    chk!(vbyte_bytes(128, false) == vec![0x80, 0x00], "vbyte 128 le");
    chk!(vbyte_bytes(129, true) == vec![0x80, 0x01], "vbyte 129 be");
    chk!(vbyte_bytes(129, false) == vec![0x81, 0x00], "vbyte 129 le");
    chk!(vbyte_bytes(128 + 16384 - 1, true).len() == 2, "vbyte top of 2 bytes");
    chk!(vbyte_bytes(128 + 16384, true) == vec![0x80, 0x80, 0x00], "vbyte first of 3 bytes");
    chk!(vbyte_bytes(u64::MAX, true).len() == 10, "vbyte max len");
    // pi: pi_0 = gamma, pi_1 = zeta_2 (BE), zeta_1 = gamma
    for v in 0..2000u64 {
        chk!(encode(En::BE, Code::Pi(0), v) == encode(En::BE, Code::Gamma, v), "pi0=gamma BE {}", v);
        chk!(encode(En::LE, Code::Pi(0), v) == encode(En::LE, Code::Gamma, v), "pi0=gamma LE {}", v);
        chk!(encode(En::BE, Code::Pi(1), v) == encode(En::BE, Code::Zeta(2), v), "pi1=zeta2 BE {}", v);
        chk!(encode(En::LE, Code::Pi(1), v).len() == encode(En::LE, Code::Zeta(2), v).len(), "pi1~zeta2 LE {}", v);
        chk!(encode(En::BE, Code::Zeta(1), v) == encode(En::BE, Code::Gamma, v), "zeta1=gamma BE {}", v);
        chk!(encode(En::LE, Code::Zeta(1), v) == encode(En::LE, Code::Gamma, v), "zeta1=gamma LE {}", v);
        chk!(encode(En::LE, Code::ExpGolomb(0), v) == encode(En::LE, Code::Gamma, v), "expgolomb0=gamma {}", v);
        chk!(encode(En::LE, Code::Rice(0), v) == encode(En::LE, Code::Unary, v), "rice0=unary {}", v);
        chk!(encode(En::LE, Code::Golomb(1), v) == encode(En::LE, Code::Unary, v), "golomb1=unary {}", v);
        for k in 1..4u32 {
            chk!(encode(En::BE, Code::Golomb(1 << k), v) == encode(En::BE, Code::Rice(k), v), "golomb2^k=rice BE");
            chk!(encode(En::LE, Code::Golomb(1 << k), v) == encode(En::LE, Code::Rice(k), v), "golomb2^k=rice LE");
        }
    }

    // --- internal consistency: encode/decode identity, length, Kraft ---
    let mut codes: Vec<Code> = vec![Code::Unary, Code::Gamma, Code::Delta, Code::Omega, Code::VByteBe, Code::VByteLe];
    for k in [1u32, 2, 3, 4, 5, 7, 8, 13, 16, 21, 31, 32, 33, 63] {
        codes.push(Code::Zeta(k));
    }
    for k in [0u32, 1, 2, 3, 5, 8, 16, 31, 32, 33, 62, 63] {
        codes.push(Code::Pi(k));
        codes.push(Code::Rice(k));
        codes.push(Code::ExpGolomb(k));
    }
    for b in [1u64, 2, 3, 4, 5, 6, 7, 8, 9, 10, 11, 13, 16, 17, 31, 32, 33, 100, 1 << 20, (1 << 32) + 1, u64::MAX] {
        codes.push(Code::Golomb(b));
        codes.push(Code::MinBin(b));
    }
    let mut values: Vec<u64> = (0..600).collect();
    values.extend(crate::rng::boundary_values(u64::MAX - 1, 0));
    for &c in &codes {
        for e in En::BOTH {
            for &v in &values {
                if v > c.max_value() {
                    continue;
                }
                let len = code_len(c, v);
                if len > 5000 {
                    continue;
                }
                let mut bits = vec![1, 0, 1]; // some preceding bits
                push_code(&mut bits, e, c, v);
                chk!(bits.len() as u128 == 3 + len, "model len {:?} {} {}: {} vs {}", c, e.name(), v, bits.len() - 3, len);
                bits.extend_from_slice(&[1, 1, 0, 1]);
                let d = decode(&bits, 3, e, c);
                chk!(d == Some((v, 3 + len as usize)), "model decode {:?} {} {}: {:?}", c, e.name(), v, d);
                // truncated codeword must not decode
                let d2 = decode(&bits[..3 + len as usize - 1], 3, e, c);
                chk!(len == 0 || d2.is_none(), "model decode of truncated {:?} {} {}: {:?}", c, e.name(), v, d2);
            }
        }
    }
    // Kraft: for complete codes the sum over a full "level" is exactly 1 at the
    // natural block ends; here: partial sums never exceed 1 (exact in u128 / 2^100)
    for &c in &[Code::Gamma, Code::Delta, Code::Omega, Code::Zeta(2), Code::Zeta(3), Code::Pi(2), Code::Rice(3), Code::Golomb(5), Code::ExpGolomb(2), Code::VByteBe] {
        let mut sum: u128 = 0;
        let one: u128 = 1u128 << 100;
        for v in 0..20000u64 {
            let l = code_len(c, v);
            if l <= 100 {
                sum += 1u128 << (100 - l);
            }
            chk!(sum <= one, "model Kraft {:?} at {}", c, v);
        }
    }
    // image layout
    let bits = bits_from_string("110000001");
    chk!(image(&bits, En::BE, 1) == vec![0xC0, 0x80], "image BE");
    chk!(image(&bits, En::LE, 1) == vec![0x03, 0x01], "image LE");
    chk!(image(&bits, En::LE, 4) == vec![0x03, 0x01, 0, 0], "image pad");
    chk!(bits_of_image(&image(&bits, En::BE, 2), En::BE)[..9] == bits[..], "image roundtrip");
    // to_nat
    chk!(to_nat_i128(0) == 0 && to_nat_i128(-1) == 1 && to_nat_i128(1) == 2 && to_nat_i128(-2) == 3, "to_nat small");
    chk!(to_nat_i128(i128::MIN) == u128::MAX && to_nat_i128(i128::MAX) == u128::MAX - 1, "to_nat extremes");

    // --- external vectors ---
    if let Some(path) = vectors {
        let text = std::fs::read_to_string(path).map_err(|e| format!("cannot read {}: {}", path, e))?;
        let mut seen = 0u64;
        for line in text.lines() {
            let line = line.trim();
            if line.is_empty() || line.starts_with('#') {
                continue;
            }
            // <source> <code> <param> <value> <BE|LE> <bits in stream order>
            let f: Vec<&str> = line.split_whitespace().collect();
            if f.len() != 6 {
                return Err(format!("bad vector line: {}", line));
            }
            let param: u64 = f[2].parse().map_err(|_| format!("bad param in {}", line))?;
            let value: u64 = f[3].parse().map_err(|_| format!("bad value in {}", line))?;
            let e = if f[4] == "BE" { En::BE } else { En::LE };
            let code = match f[1] {
                "unary" => Code::Unary,
                "gamma" => Code::Gamma,
                "delta" => Code::Delta,
                "omega" => Code::Omega,
                "zeta" => Code::Zeta(param as u32),
                "pi" => Code::Pi(param as u32),
                "minbin" => Code::MinBin(param),
                other => return Err(format!("unknown code {} in vectors", other)),
            };
            let got = s(e, code, value);
            // "prefix" sources give a zero-padded 64-bit word: compare as prefix + zeros
            if f[0].ends_with("64") {
                let exp = f[5];
                let ok = exp.len() == 64 && exp.starts_with(&got) && exp[got.len()..].bytes().all(|b| b == b'0');
                chk!(ok, "vector {}: model gives {}", line, got);
            } else {
                chk!(got == f[5], "vector {}: model gives {}", line, got);
            }
            seen += 1;
        }
        chk!(seen > 1000, "too few external vectors ({})", seen);
    }
    Ok(n)
}
