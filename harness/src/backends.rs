//! Recording / fault-injecting backends: every observation is made at the
//! library's boundary (the words it asks for, the words it delivers, the bytes
//! it moves through std::io), never inside it.

use dsi_bitstream::traits::{Word, WordRead, WordSeek, WordWrite};
use std::cell::RefCell;
use std::fmt::Debug;
use std::io;
use std::rc::Rc;

/// Harness view of the library's word types.
pub trait HWord: Word + Debug + 'static {
    const NBYTES: usize;
    const NBITS: usize;
    const WNAME: &'static str;
    fn from_ne_slice(b: &[u8]) -> Self;
    fn to_ne_vec(self) -> Vec<u8>;
    fn from_u128_trunc(x: u128) -> Self;
    fn as_u128(self) -> u128;
}

macro_rules! impl_hword {
    ($($t:ty),*) => {$(
        impl HWord for $t {
            const NBYTES: usize = core::mem::size_of::<$t>();
            const NBITS: usize = 8 * core::mem::size_of::<$t>();
            const WNAME: &'static str = stringify!($t);
            fn from_ne_slice(b: &[u8]) -> Self {
                let mut a = [0u8; core::mem::size_of::<$t>()];
                a.copy_from_slice(b);
                <$t>::from_ne_bytes(a)
            }
            fn to_ne_vec(self) -> Vec<u8> { self.to_ne_bytes().to_vec() }
            fn from_u128_trunc(x: u128) -> Self { x as $t }
            fn as_u128(self) -> u128 { self as u128 }
        }
    )*};
}
impl_hword!(u8, u16, u32, u64, u128);

/// Words of a byte image (length must be a multiple of the word size).
pub fn words_from_bytes<W: HWord>(bytes: &[u8]) -> Vec<W> {
    assert!(bytes.len() % W::NBYTES == 0, "image not word aligned");
    bytes.chunks(W::NBYTES).map(W::from_ne_slice).collect()
}

pub fn bytes_from_words<W: HWord>(words: &[W]) -> Vec<u8> {
    words.iter().flat_map(|w| w.to_ne_vec()).collect()
}

pub const BUDGET_MSG: &str = "VERIF-BUDGET: too many backend calls in one operation";

// ---------------------------------------------------------------------------------------------
// Recording WordWrite
// ---------------------------------------------------------------------------------------------

#[derive(Default, Debug, Clone)]
pub struct WriteLog {
    /// bytes of every word delivered, in delivery order
    pub bytes: Vec<u8>,
    pub words: usize,
    pub flushes: usize,
    pub calls: u64,
    /// calls made since the monitor last reset it (logical-step budget)
    pub calls_this_op: u64,
    pub budget: u64,
    /// read/seek activity when the backend is also used as a reader
    pub events: u64,
}

pub type SharedWriteLog = Rc<RefCell<WriteLog>>;

/// A `WordWrite` that appends every delivered word to a shared log, with an
/// optional capacity (in words) after which `write_word` fails.
#[derive(Debug)]
pub struct RecWordWrite<W: HWord> {
    pub log: SharedWriteLog,
    pub cap_words: Option<usize>,
    _m: core::marker::PhantomData<W>,
}

impl<W: HWord> RecWordWrite<W> {
    pub fn new(cap_words: Option<usize>) -> (Self, SharedWriteLog) {
        // default: a generous cumulative bound, so that a runaway write becomes a logical-step
        // verdict (budget panic) instead of a wall-clock one
        let log = Rc::new(RefCell::new(WriteLog { budget: 1 << 20, ..Default::default() }));
        (Self { log: log.clone(), cap_words, _m: Default::default() }, log)
    }
}

impl<W: HWord> WordWrite for RecWordWrite<W> {
    type Error = io::Error;
    type Word = W;

    fn write_word(&mut self, word: W) -> Result<(), io::Error> {
        let mut l = self.log.borrow_mut();
        l.calls += 1;
        l.calls_this_op += 1;
        if std::thread::panicking() {
            // a writer being dropped while a panic (e.g. the budget panic below) unwinds: its Drop flushes
            // and unwraps, and a second panic there would abort the process - swallow the word instead
            return Ok(());
        }
        if l.calls_this_op > l.budget {
            drop(l);
            panic!("{}", BUDGET_MSG);
        }
        if let Some(cap) = self.cap_words {
            if l.words >= cap {
                return Err(io::Error::new(io::ErrorKind::WriteZero, "recording backend full"));
            }
        }
        l.bytes.extend_from_slice(&word.to_ne_vec());
        l.words += 1;
        Ok(())
    }

    fn flush(&mut self) -> Result<(), io::Error> {
        let mut l = self.log.borrow_mut();
        l.calls += 1;
        l.flushes += 1;
        Ok(())
    }
}

// ---------------------------------------------------------------------------------------------
// Recording WordRead + WordSeek
// ---------------------------------------------------------------------------------------------

#[derive(Default, Debug, Clone)]
pub struct ReadLog {
    pub reads: u64,
    pub eofs: u64,
    pub seeks: u64,
    pub pos_calls: u64,
    pub calls_this_op: u64,
    pub budget: u64,
    /// highest word index + 1 ever fetched
    pub high_water: usize,
}

pub type SharedReadLog = Rc<RefCell<ReadLog>>;

/// A `WordRead + WordSeek + Clone` over a byte image; zero-extended or strict.
/// Clones share the image and the log (so the log counts the calls of all
/// clones), but have independent cursors.
#[derive(Debug, Clone)]
pub struct RecWordRead<W: HWord> {
    data: Rc<Vec<u8>>,
    len_words: usize,
    pub pos: usize,
    zext: bool,
    pub log: SharedReadLog,
    _m: core::marker::PhantomData<W>,
}

impl<W: HWord> RecWordRead<W> {
    pub fn new(image: &[u8], zext: bool) -> (Self, SharedReadLog) {
        assert!(image.len() % W::NBYTES == 0);
        let log = Rc::new(RefCell::new(ReadLog { budget: 200_000, ..Default::default() }));
        (
            Self {
                data: Rc::new(image.to_vec()),
                len_words: image.len() / W::NBYTES,
                pos: 0,
                zext,
                log: log.clone(),
                _m: Default::default(),
            },
            log,
        )
    }
    fn tick(&self) {
        let mut l = self.log.borrow_mut();
        l.calls_this_op += 1;
        if l.calls_this_op > l.budget {
            drop(l);
            panic!("{}", BUDGET_MSG);
        }
    }
}

impl<W: HWord> WordRead for RecWordRead<W> {
    type Error = io::Error;
    type Word = W;

    fn read_word(&mut self) -> Result<W, io::Error> {
        self.tick();
        let mut l = self.log.borrow_mut();
        if self.pos < self.len_words {
            let w = W::from_ne_slice(&self.data[self.pos * W::NBYTES..(self.pos + 1) * W::NBYTES]);
            self.pos += 1;
            l.reads += 1;
            l.high_water = l.high_water.max(self.pos);
            Ok(w)
        } else if self.zext {
            self.pos += 1;
            l.reads += 1;
            l.high_water = l.high_water.max(self.pos);
            Ok(W::ZERO)
        } else {
            l.eofs += 1;
            Err(io::Error::new(io::ErrorKind::UnexpectedEof, "recording backend: end of data"))
        }
    }
}

impl<W: HWord> WordSeek for RecWordRead<W> {
    type Error = io::Error;

    fn word_pos(&mut self) -> Result<u64, io::Error> {
        self.tick();
        self.log.borrow_mut().pos_calls += 1;
        Ok(self.pos as u64)
    }

    fn set_word_pos(&mut self, word_pos: u64) -> Result<(), io::Error> {
        self.tick();
        self.log.borrow_mut().seeks += 1;
        if !self.zext && word_pos > self.len_words as u64 {
            return Err(io::Error::new(io::ErrorKind::UnexpectedEof, "recording backend: seek past end"));
        }
        self.pos = word_pos.min(usize::MAX as u64 / 2) as usize;
        Ok(())
    }
}

// ---------------------------------------------------------------------------------------------
// Shared byte sink (io::Write) observable after the writer has been dropped
// ---------------------------------------------------------------------------------------------

#[derive(Debug, Clone, Default)]
pub struct SharedSink(pub Rc<RefCell<Vec<u8>>>);

impl io::Write for SharedSink {
    fn write(&mut self, buf: &[u8]) -> io::Result<usize> {
        self.0.borrow_mut().extend_from_slice(buf);
        Ok(buf.len())
    }
    fn flush(&mut self) -> io::Result<()> {
        Ok(())
    }
}

// ---------------------------------------------------------------------------------------------
// Fault-injecting io::Read / io::Write / io::Seek (C11)
// ---------------------------------------------------------------------------------------------

#[derive(Clone, Copy, Debug, PartialEq, Eq)]
pub enum Fault {
    /// transfer at most this many bytes in this call
    Limit(usize),
    /// return ErrorKind::Interrupted (the call transfers nothing)
    Interrupted,
    /// return a hard error
    Hard,
}

#[derive(Debug, Default, Clone)]
pub struct IoLog {
    /// (call index, requested, outcome: Ok(n) or Err(kind))
    pub calls: Vec<(usize, Result<usize, io::ErrorKind>)>,
    pub flushes: usize,
    pub seeks: usize,
}

/// Byte stream whose every call is governed by a schedule. When the schedule
/// is exhausted `default` applies. `Limit(0)` on a write means Ok(0).
#[derive(Debug, Clone)]
pub struct FaultyIo {
    pub data: Vec<u8>,
    pub pos: usize,
    pub schedule: Vec<Fault>,
    pub default: Fault,
    pub call: usize,
    pub log: Rc<RefCell<IoLog>>,
}

impl FaultyIo {
    pub fn new(data: Vec<u8>, schedule: Vec<Fault>, default: Fault) -> Self {
        Self { data, pos: 0, schedule, default, call: 0, log: Default::default() }
    }
    fn next_fault(&mut self) -> Fault {
        let f = self.schedule.get(self.call).copied().unwrap_or(self.default);
        self.call += 1;
        f
    }
}

impl io::Read for FaultyIo {
    fn read(&mut self, buf: &mut [u8]) -> io::Result<usize> {
        let f = self.next_fault();
        let r = match f {
            Fault::Interrupted => Err(io::ErrorKind::Interrupted),
            Fault::Hard => Err(io::ErrorKind::Other),
            Fault::Limit(m) => {
                let avail = self.data.len().saturating_sub(self.pos);
                let n = buf.len().min(m).min(avail);
                buf[..n].copy_from_slice(&self.data[self.pos..self.pos + n]);
                self.pos += n;
                Ok(n)
            }
        };
        self.log.borrow_mut().calls.push((buf.len(), r));
        r.map_err(|k| io::Error::new(k, "injected"))
    }
}

impl io::Write for FaultyIo {
    fn write(&mut self, buf: &[u8]) -> io::Result<usize> {
        let f = self.next_fault();
        let r = match f {
            Fault::Interrupted => Err(io::ErrorKind::Interrupted),
            Fault::Hard => Err(io::ErrorKind::Other),
            Fault::Limit(m) => {
                let n = buf.len().min(m);
                // write at the cursor (overwrite or extend)
                for (i, b) in buf[..n].iter().enumerate() {
                    if self.pos + i < self.data.len() {
                        self.data[self.pos + i] = *b;
                    } else {
                        self.data.push(*b);
                    }
                }
                self.pos += n;
                Ok(n)
            }
        };
        self.log.borrow_mut().calls.push((buf.len(), r));
        r.map_err(|k| io::Error::new(k, "injected"))
    }
    fn flush(&mut self) -> io::Result<()> {
        self.log.borrow_mut().flushes += 1;
        Ok(())
    }
}

impl io::Seek for FaultyIo {
    fn seek(&mut self, pos: io::SeekFrom) -> io::Result<u64> {
        self.log.borrow_mut().seeks += 1;
        let np: i128 = match pos {
            io::SeekFrom::Start(p) => p as i128,
            io::SeekFrom::End(d) => self.data.len() as i128 + d as i128,
            io::SeekFrom::Current(d) => self.pos as i128 + d as i128,
        };
        if np < 0 {
            return Err(io::Error::new(io::ErrorKind::InvalidInput, "negative seek"));
        }
        self.pos = np as usize;
        Ok(self.pos as u64)
    }
}

// ---------------------------------------------------------------------------------------------
// Call budget around a library backend
// ---------------------------------------------------------------------------------------------

/// Delegates to a library word reader and counts the calls: a reader that runs away over the
/// zero extension (which never reports an error) becomes a budget panic - a logical-step
/// verdict - instead of a process that spins until the wall-clock watchdog.
#[derive(Debug, Clone)]
pub struct Budgeted<B> {
    pub inner: B,
    calls: u64,
    budget: u64,
}

impl<B> Budgeted<B> {
    pub fn new(inner: B, budget: u64) -> Self {
        Self { inner, calls: 0, budget }
    }
    fn tick(&mut self) {
        self.calls += 1;
        if self.calls > self.budget {
            panic!("{}", BUDGET_MSG);
        }
    }
}

impl<B: WordRead> WordRead for Budgeted<B> {
    type Error = B::Error;
    type Word = B::Word;
    fn read_word(&mut self) -> Result<Self::Word, Self::Error> {
        self.tick();
        self.inner.read_word()
    }
}

impl<B: WordSeek> WordSeek for Budgeted<B> {
    type Error = B::Error;
    fn word_pos(&mut self) -> Result<u64, Self::Error> {
        self.inner.word_pos()
    }
    fn set_word_pos(&mut self, word_pos: u64) -> Result<(), Self::Error> {
        self.inner.set_word_pos(word_pos)
    }
}
