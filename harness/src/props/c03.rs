//! C03 — every instantaneous code round-trips at any position, in any configuration.

use super::codes::*;
use super::common::*;
use crate::drivers::*;
use crate::model::*;
use crate::report::{Kv, Report};
use crate::rng::Rng;
use crate::{par_items, Ctx, Tier};

pub fn offsets_for(w: usize, tier: Tier, rng: &mut Rng) -> Vec<usize> {
    match tier {
        Tier::Thorough => (0..=2 * w + 1).collect(),
        Tier::Quick => {
            let mut v = vec![0, 1, 7, 8, 9, w - 1, w, w + 1, 2 * w - 1, 2 * w, 2 * w + 1];
            for _ in 0..4 {
                v.push(rng.below(2 * w as u64 + 2) as usize);
            }
            v.sort_unstable();
            v.dedup();
            v
        }
        Tier::Tiny => vec![0, w + 1],
    }
}

pub fn run(ctx: &Ctx) -> Report {
    let codes = code_grid(ctx.tier == Tier::Thorough);
    let codes: Vec<Code> = if ctx.tier == Tier::Tiny { vec![Code::Gamma, Code::Delta, Code::Zeta(3), Code::Omega, Code::Golomb(5), Code::VByteLe] } else { codes };
    let mut work: Vec<(En, Code)> = vec![];
    for e in En::BOTH {
        for c in &codes {
            work.push((e, *c));
        }
    }
    par_items(ctx, "C03", &work, |&(e, code), rep| {
        let mut rng = Rng::derive(ctx.seed, crate::report::hash_of(&(0xC03u64, e, code)));
        let values = value_grid(code, ctx.pick(8, 64, 200), &mut rng, ctx.pick(2, 40, 100));
        let lm = lmax(ctx.tier == Tier::Thorough);
        let wms = write_methods(code);
        let mut ci = 0usize;
        for &v in &values {
            let len = code_len(code, v);
            if len > lm {
                rep.count("values_too_long_to_materialise", 1);
                continue;
            }
            let long = len > 1500;
            // writer words and offsets: rotate through the matrix, all of it in thorough
            let wwords: Vec<WWord> = if ctx.tier == Tier::Thorough && !long { WWord::ALL.to_vec() } else { vec![WWord::ALL[ci % 5], WWord::ALL[(ci / 5 + 2) % 5]] };
            for (wi, ww) in wwords.iter().enumerate() {
                let offs = offsets_for(64, ctx.tier, &mut rng);
                let noffs = if long { 1 } else { ctx.pick(1, 5, offs.len().min(16)) };
                for oi in 0..noffs {
                    // offsets relative to the *reader* word vary too: take them from a per-reader list below
                    let wop = wms[(ci + oi + wi) % wms.len()];
                    let base_off = offs[(ci * 7 + oi * 3 + wi) % offs.len()];
                    for kind in RKind::ALL {
                        // map the offset class onto this reader's word size
                        let w = kind.word_bits();
                        let roffs = offsets_for(w, if ctx.tier == Tier::Thorough { Tier::Quick } else { ctx.tier }, &mut rng);
                        let off = if ctx.tier == Tier::Thorough { base_off % (2 * w + 2) } else { roffs[(ci + oi * 5 + wi) % roffs.len()] };
                        let case = CodeCase { e, w: *ww, wop, value: v, offset: off, seed: ctx.seed ^ (ci as u64) };
                        let wr = match write_case("C03", &case, rep, false, false) {
                            Some(w) => w,
                            None => continue,
                        };
                        let rms = match read_methods(code, kind) {
                            Ok(m) => m,
                            Err(err) => {
                                rep.inconclusive(format!("diagnostics probe: {}", err));
                                return;
                            }
                        };
                        let be = RBackend::ALL[(ci + oi + kind.word_bits()) % RBackend::ALL.len()];
                        for (mi, rop) in rms.iter().enumerate() {
                            if long && mi > 0 {
                                break;
                            }
                            let rcfg = RCfg { e, kind, be };
                            read_case("C03", &case, &wr, rcfg, *rop, rep, (ci + mi) as u8);
                            if !long && (ci + mi + oi) % 2 == 0 {
                                let sbe = RBackend::STRICT[(ci + oi + mi + w) % RBackend::STRICT.len()];
                                read_case_tail(&case, &wr, RCfg { e, kind, be: sbe }, *rop, rep, (ci + mi + 1) as u8);
                            }
                            let bl = 64 - (v | 1).leading_zeros();
                            if len > 1 {
                                rep.case(&(code, bl, off % w, e, *ww, kind, *rop));
                            }
                        }
                        rep.sample(|| format!("{} -> image {}.. read back on {}", case.to_kv(), hexs(&wr.image16[..wr.image16.len().min(24)]), kind.name()));
                    }
                }
            }
            ci += 1;
        }
    })
}

pub fn replay(case: &str, rep: &mut Report) {
    let kv = Kv::parse(case);
    let c = CodeCase::from_kv(&kv);
    if let Some(wr) = write_case("C03", &c, rep, false, false) {
        if let (Some(rc), Some(rop)) = (kv.opt("rcfg"), kv.opt("rop")) {
            let ap: u8 = kv.opt("approach").and_then(|s| s.parse().ok()).unwrap_or(0);
            if kv.opt("tail").is_some() {
                read_case_tail(&c, &wr, parse_rcfg(rc), parse_codeop(rop), rep, ap);
            } else {
                read_case("C03", &c, &wr, parse_rcfg(rc), parse_codeop(rop), rep, ap);
            }
        }
    }
}
