//! C02 — bit readers return exactly the stream's bits for every operation history.

use super::common::*;
use super::readhist::*;
use crate::drivers::*;
use crate::model::*;
use crate::report::Report;
use crate::rng::{Pattern, Rng};
use crate::{par_items, Ctx, Tier};

/// ops that bring a fresh buffered reader to fill level f (0 <= f < 2W)
pub fn fill_prefix(f: usize, w: usize) -> Vec<ROp> {
    if f == 0 {
        vec![]
    } else if f < w {
        vec![ROp::Read(w - f)]
    } else {
        let mut v = vec![];
        if 2 * w - f > 0 {
            v.push(ROp::Read(2 * w - f));
        }
        v.push(ROp::Peek(w));
        v
    }
}

pub fn pos_after(ops: &[ROp]) -> usize {
    ops.iter().map(|o| match o { ROp::Read(n) | ROp::Skip(n) => *n, _ => 0 }).sum()
}

fn single_ops(w: usize, peek_limit: usize, tier: Tier) -> Vec<ROp> {
    let mut v = vec![];
    let step = if tier == Tier::Tiny { 13 } else { 1 };
    for n in (0..=64).step_by(step) {
        v.push(ROp::Read(n));
    }
    for n in (0..=3 * w + 2).step_by(step) {
        v.push(ROp::Skip(n));
    }
    for n in (1..=peek_limit).step_by(step) {
        v.push(ROp::Peek(n));
        for m in [0usize, 1, n / 2, n.saturating_sub(1), n] {
            if m <= n {
                v.push(ROp::PeekSkip(n, m));
            }
        }
    }
    v.dedup();
    v
}

pub fn run(ctx: &Ctx) -> Report {
    let mut work: Vec<(En, RKind)> = vec![];
    for e in En::BOTH {
        for k in RKind::ALL {
            work.push((e, k));
        }
    }
    let mut rep = par_items(ctx, "C02", &work, |&(e, kind), rep| {
        let w = kind.word_bits();
        let wb = w / 8;
        let mut rng = Rng::derive(ctx.seed, 0xC02 + w as u64 * 7 + kind.buffered() as u64 + if e == En::BE { 0 } else { 5000 });
        // ---- (0) a run of more than 2^32 zeros: read_unary over it, skip_bits over it (sparse backend) ----
        if ctx.tier != Tier::Tiny {
            let xs: Vec<u64> = if ctx.tier == Tier::Thorough { vec![(1 << 32) + 3, (1 << 32) - 1, (1 << 33) + 77] } else { vec![(1 << 32) + 3 + (ctx.seed % 64)] };
            for x in xs {
                for mode in [0u8, 1] {
                    super::huge::check_read(e, if kind.buffered() { w } else { 0 }, x, mode, rep);
                }
            }
        }
        let nbytes = ((5 * w + 3 + 192) / 8).div_ceil(wb) * wb + wb;
        let backends_all = RBackend::ALL;
        // ---- (1) every buffer state x every next operation ----
        let states: Vec<(usize, Vec<ROp>)> = if kind.buffered() {
            let mut s: Vec<(usize, Vec<ROp>)> = (0..2 * w).map(|f| (f, fill_prefix(f, w))).collect();
            // fill 0 reached after consuming exactly one word
            s.push((0, vec![ROp::Read(w.min(64))]));
            if ctx.tier == Tier::Tiny {
                s = s.into_iter().step_by(w / 2 + 1).collect();
            }
            s
        } else {
            let offs: Vec<usize> = if ctx.tier == Tier::Tiny { vec![0, 1, 63] } else { (0..64).collect() };
            offs.into_iter().map(|o| (o, if o == 0 { vec![] } else { vec![ROp::Skip(o)] })).collect()
        };
        let pats: Vec<Pattern> = match ctx.tier {
            Tier::Thorough => vec![Pattern::Random, Pattern::Ones, Pattern::Sparse, Pattern::ZeroRuns, Pattern::Alternating],
            _ => vec![Pattern::Random, Pattern::Ones],
        };
        let ops1 = single_ops(w, kind.peek_limit(), ctx.tier);
        let mut bi = 0usize;
        for (pi, pat) in pats.iter().enumerate() {
            let img = random_image(&mut rng, *pat, nbytes, e);
            for (si, (_f, prefix)) in states.iter().enumerate() {
                let p0 = pos_after(prefix);
                // which backends: recording ones always (fill tracking), the others in rotation
                let mut bes = vec![RBackend::RecZ, RBackend::RecS];
                if pi == 0 {
                    bes.push(backends_all[2 + (si % 6)]);
                    if ctx.tier == Tier::Thorough {
                        bes.extend_from_slice(&backends_all[2..]);
                        bes.dedup();
                    }
                }
                for be in bes {
                    let cfg = RCfg { e, kind, be };
                    for (oi, op) in ops1.iter().enumerate() {
                        let mut ops = prefix.clone();
                        ops.push(op.clone());
                        // continuation: position + a read across the refill path
                        if (oi + si) % 2 == 0 {
                            ops.extend([ROp::Pos, ROp::Read(64), ROp::Pos]);
                        } else {
                            ops.extend([ROp::Peek(kind.peek_limit().min(w)), ROp::Read(17), ROp::Unary, ROp::Pos]);
                        }
                        check("C02", &RCase { cfg, image: img.clone(), ops }, rep, true);
                    }
                    // clone, then operate on the clone; the original must not move
                    for op in [ROp::Read(13), ROp::Read(64), ROp::Skip(w + 3), ROp::Peek(kind.peek_limit().min(9)), ROp::Unary] {
                        let mut ops = prefix.clone();
                        ops.push(ROp::CloneSwitch);
                        ops.push(op);
                        ops.extend([ROp::Pos, ROp::Read(33)]);
                        check("C02", &RCase { cfg, image: img.clone(), ops }, rep, true);
                    }
                    bi += 1;
                }
                // unary runs: next one at distance d from the state position
                let dmax = 3 * w;
                let dstep = if ctx.tier == Tier::Tiny { 17 } else { 1 };
                for d in (0..=dmax).step_by(dstep) {
                    let mut bits = bits_of_image(&img, e);
                    if p0 + d + 1 >= bits.len() {
                        continue;
                    }
                    for b in bits[p0..p0 + d].iter_mut() {
                        *b = 0;
                    }
                    bits[p0 + d] = 1;
                    let im2 = image(&bits, e, wb);
                    let be = if d % 2 == 0 { RBackend::RecZ } else { RBackend::RecS };
                    let mut ops = prefix.clone();
                    ops.push(ROp::Unary);
                    ops.extend([ROp::Pos, ROp::Read(40), ROp::Pos]);
                    check("C02", &RCase { cfg: RCfg { e, kind, be }, image: im2, ops }, rep, true);
                }
            }
        }
        let _ = bi;
        if ctx.tier != Tier::Tiny {
            rep.exhaustive(&format!(
                "{}/{}: every buffer fill level x every read_bits(0..=64), skip_bits(0..={}), peek_bits(1..={}), read_unary with the next one at distance 0..={}, clone-then-op",
                e.name(),
                kind.name(),
                3 * w + 2,
                kind.peek_limit(),
                3 * w
            ));
        }
        // ---- (2) all op sequences of bounded depth over a reduced alphabet ----
        let mut alpha: Vec<ROp> = vec![
            ROp::Read(0),
            ROp::Read(1),
            ROp::Read(7),
            ROp::Read(w.min(64) - 1),
            ROp::Read(w.min(64)),
            ROp::Read((w + 1).min(64)),
            ROp::Read(33),
            ROp::Read(63),
            ROp::Read(64),
            ROp::Peek(1),
            ROp::Peek(kind.peek_limit().min(9)),
            ROp::Peek(kind.peek_limit()),
            ROp::Skip(1),
            ROp::Skip(w - 1),
            ROp::Skip(w),
            ROp::Skip(2 * w + 1),
            ROp::Unary,
            ROp::CloneSwitch,
        ];
        alpha.dedup();
        let depth = ctx.pick(2, 3, 4);
        let img = random_image(&mut rng, Pattern::Random, (depth * (2 * w + 1 + 64) / 8 + 32).div_ceil(wb) * wb, e);
        let mut idx = vec![0usize; depth];
        let mut count = 0usize;
        'outer: loop {
            let mut ops: Vec<ROp> = idx.iter().map(|i| alpha[*i].clone()).collect();
            ops.extend([ROp::Pos, ROp::Read(64)]);
            let be = [RBackend::RecZ, RBackend::RecS, RBackend::MemZ, RBackend::MemS, RBackend::AdCursor, RBackend::WVec][count % 6];
            check("C02", &RCase { cfg: RCfg { e, kind, be }, image: img.clone(), ops }, rep, true);
            count += 1;
            // next index vector
            let mut k = 0;
            loop {
                idx[k] += 1;
                if idx[k] < alpha.len() {
                    break;
                }
                idx[k] = 0;
                k += 1;
                if k == depth {
                    break 'outer;
                }
            }
        }
        rep.exhaustive(&format!("{}/{}: all {} op sequences of depth {} over a {}-op alphabet", e.name(), kind.name(), count, depth, alpha.len()));
        // ---- (3) seeded random histories over every backend and data pattern ----
        let nhist = ctx.pick(4, 2000, 20000);
        let o = GenOpts { seeks: false, io: false, codes: false, clones: true, pos: true, max_read_code_len: 0 };
        for hix in 0..nhist {
            let pat = Pattern::ALL[hix % Pattern::ALL.len()];
            let nb = ((8 + rng.below(96) as usize) / wb + 1) * wb;
            let img = random_image(&mut rng, pat, nb, e);
            for be in RBackend::ALL {
                let cfg = RCfg { e, kind, be };
                let len = 1 + rng.below(ctx.pick(8, 40, 120)) as usize;
                let ops = gen_history(&mut rng, cfg, &img, len, &o, &[]);
                check("C02", &RCase { cfg, image: img.clone(), ops }, rep, true);
            }
        }
    });
    // every fill level of every buffered reader must have been observed
    if ctx.tier != Tier::Tiny {
        for e in En::BOTH {
            for kind in RKind::BUFFERED {
                let key = format!("fill/{}/{}", e.name(), kind.name());
                let seen = rep.cover.get(&key).map(|s| s.len()).unwrap_or(0);
                if seen < 2 * kind.word_bits() {
                    rep.inconclusive(format!("only {} of {} fill levels observed for {}", seen, 2 * kind.word_bits(), key));
                }
            }
        }
    }
    rep
}

pub fn replay(case: &str, rep: &mut Report) {
    if case.starts_with("huge=") {
        return super::huge::replay(case, rep);
    }
    check("C02", &RCase::from_kv(case), rep, true);
}
