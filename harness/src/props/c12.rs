//! C12 — std::io::Read / std::io::Write views of a bit stream are byte-exact.

use super::c01::{self, Fin};
use super::common::*;
use super::readhist::{self, RCase};
use crate::drivers::*;
use crate::model::*;
use crate::report::{hex, Report};
use crate::rng::{Pattern, Rng};
use crate::{par_items, Ctx, Tier};

#[derive(Clone, Copy, Debug, PartialEq, Eq, Hash)]
enum Item {
    Write(En, WWord),
    Read(En, RKind),
}

fn filler(offset: usize, rng: &mut Rng) -> Vec<WOp> {
    let mut ops = vec![];
    let mut left = offset;
    while left > 0 {
        let n = left.min(64).min(1 + rng.below(64) as usize);
        ops.push(WOp::Bits(rng.next(), n));
        left -= n;
    }
    ops
}

pub fn run(ctx: &Ctx) -> Report {
    let mut work = vec![];
    for e in En::BOTH {
        for w in WWord::ALL {
            work.push(Item::Write(e, w));
        }
        for k in RKind::ALL {
            work.push(Item::Read(e, k));
        }
    }
    par_items(ctx, "C12", &work, |item, rep| match *item {
        Item::Write(e, w) => {
            let mut rng = Rng::derive(ctx.seed, crate::report::hash_of(&(0xC12u64, e, w)));
            let wbits = w.bits();
            let offsets: Vec<usize> = if ctx.tier == Tier::Tiny { vec![0, 3, wbits] } else { (0..=2 * wbits).collect() };
            let mut lens: Vec<usize> = if ctx.tier == Tier::Tiny { vec![0, 1, 9, 17] } else { (0..=40).collect() };
            for _ in 0..ctx.pick(0, 6, 40) {
                lens.push(41 + rng.below(260) as usize);
            }
            let mut ci = 0usize;
            for &off in &offsets {
                for &len in &lens {
                    // all (offset, length) pairs in thorough; in quick every length with a rotating third of the offsets
                    if ctx.tier == Tier::Quick && len > 18 && (off + len) % 3 != 0 {
                        continue;
                    }
                    let bytes: Vec<u8> = (0..len).map(|_| rng.next() as u8).collect();
                    let mut ops = filler(off, &mut rng);
                    ops.push(WOp::IoWrite(bytes.clone()));
                    ops.push(WOp::Bits(rng.next() & 0x1f, 5));
                    if ci % 4 == 0 {
                        ops.push(WOp::IoWrite(bytes.iter().rev().cloned().take(3).collect()));
                        ops.push(WOp::Unary(9));
                    }
                    let be = [WBackend::Rec(None), WBackend::VecOwned, WBackend::AdVec, WBackend::Slice(64), WBackend::AdShort(3), WBackend::VecDirty][ci % 6];
                    let fin = if matches!(be, WBackend::Rec(_)) { [Fin::Flush2, Fin::Drop, Fin::IntoInner][ci % 3] } else { Fin::IntoInner };
                    let case = c01::Case { cfg: WCfg { e, w, be }, ops, fin };
                    c01::check_case(&case, rep);
                    if len > 0 {
                        rep.case(&(e, w, "write", len, off));
                    }
                    // io::Write::write must report the whole slice as transferred, and at a byte-aligned
                    // position the memory image coincides with the slice
                    if ci % 3 == 0 {
                        let aligned = (off / 8) * 8;
                        let mut h = make_writer(WCfg { e, w, be: WBackend::Rec(None) });
                        let pre: Vec<u8> = (0..aligned / 8).map(|i| i as u8 ^ 0x5a).collect();
                        let r0 = guard(|| h.w.io_write(&pre).unwrap());
                        let r1 = guard(|| h.w.io_write(&bytes).unwrap());
                        let r2 = guard(|| h.w.io_flush().unwrap());
                        let got = h.w.delivered().unwrap_or_default();
                        rep.eval(1);
                        let mut exp = pre.clone();
                        exp.extend_from_slice(&bytes);
                        if r0 != Out::Ok(pre.len()) || r1 != Out::Ok(len) || !r2.is_ok() || got.len() < exp.len() || got[..exp.len()] != exp[..] || got[exp.len()..].iter().any(|b| *b != 0) {
                            rep.violation(
                                &format!("{}|{}|io_write|{}", e.name(), w.name(), if !r1.is_ok() { r1.class() } else if r1 != Out::Ok(len) { "short-count".into() } else { "image".into() }),
                                || format!("write of {} bytes at byte offset {} returned {} / {}, flush {}: stream bytes {} expected {}", len, pre.len(), r0.show(), r1.show(), r2.show(), hex(&got), hex(&exp)),
                                || format!("cfg={}/{}/rec fin=flush2 ops=io:{},io:{}", e.name(), w.name(), hex(&pre), hex(&bytes)),
                            );
                        }
                    }
                    ci += 1;
                }
            }
            if ctx.tier == Tier::Thorough {
                rep.exhaustive(&format!("{}/{}: every slice length 0..=40 at every bit offset 0..={}", e.name(), w.name(), 2 * wbits));
            }
        }
        Item::Read(e, kind) => {
            let mut rng = Rng::derive(ctx.seed, crate::report::hash_of(&(0xC12Fu64, e, kind)));
            let w = kind.word_bits();
            let wb = w / 8;
            let offsets: Vec<usize> = if ctx.tier == Tier::Tiny { vec![0, 3, w] } else { (0..=2 * w).collect() };
            let mut lens: Vec<usize> = if ctx.tier == Tier::Tiny { vec![0, 1, 9, 17] } else { (0..=40).collect() };
            for _ in 0..ctx.pick(0, 6, 40) {
                lens.push(41 + rng.below(260) as usize);
            }
            let nbytes = ((2 * w + 8 * 310 + 128) / 8).div_ceil(wb) * wb;
            let imgs: Vec<Vec<u8>> = [Pattern::Random, Pattern::Alternating, Pattern::Ones].iter().map(|p| readhist::random_image(&mut rng, *p, nbytes, e)).collect();
            let mut ci = 0usize;
            for &off in &offsets {
                for &len in &lens {
                    if ctx.tier == Tier::Quick && len > 18 && (off + len) % 3 != 0 {
                        continue;
                    }
                    let mut ops: Vec<ROp> = vec![];
                    // reach the offset through different buffer states
                    match ci % 4 {
                        3 => {
                            // an already used reader (its buffer holds other bits) repositioned by a seek
                            ops.push(ROp::Read(1 + (ci % 61)));
                            ops.push(ROp::Skip((ci * 7) % (2 * w + 3)));
                            ops.push(ROp::Peek(kind.peek_limit()));
                            ops.push(ROp::Seek(off as u64));
                        }
                        0 => {
                            if off > 0 {
                                ops.push(ROp::Skip(off));
                            }
                        }
                        1 => {
                            let mut left = off;
                            while left > 0 {
                                let n = left.min(1 + rng.below(64) as usize);
                                ops.push(ROp::Read(n));
                                left -= n;
                            }
                        }
                        _ => {
                            ops.push(ROp::Peek(kind.peek_limit()));
                            if off > 0 {
                                ops.push(ROp::Skip(off));
                            }
                        }
                    }
                    ops.push(ROp::IoRead(len));
                    ops.push(ROp::Pos);
                    ops.push(ROp::Read(13));
                    if ci % 4 == 0 {
                        ops.push(ROp::IoRead(5));
                        ops.push(ROp::Unary);
                        ops.push(ROp::Pos);
                    }
                    let be = RBackend::ALL[ci % RBackend::ALL.len()];
                    let img = imgs[if ci % 5 < 3 { 0 } else { 1 + ci % 2 }].clone();
                    readhist::check("C12", &RCase { cfg: RCfg { e, kind, be }, image: img.clone(), ops }, rep, false);
                    if len > 0 {
                        rep.case(&(e, kind, "read", len, off));
                    }
                    // the same byte read when it ends in the last word of a strict stream (the slice lies
                    // entirely within the data: it must be transferred, not refused)
                    if len > 0 && (ctx.tier == Tier::Thorough || (off + len + ci) % 2 == 0) {
                        let need = off + 8 * len;
                        let mut tight = img[..need.div_ceil(w) * wb].to_vec();
                        let sbe = RBackend::STRICT[ci % RBackend::STRICT.len()];
                        let mut tops: Vec<ROp> = vec![];
                        if off > 0 {
                            if ci % 2 == 0 {
                                tops.push(ROp::Skip(off));
                            } else {
                                tops.push(ROp::Read(off.min(64)));
                                if off > 64 {
                                    tops.push(ROp::Skip(off - 64));
                                }
                            }
                        }
                        tops.push(ROp::IoRead(len));
                        tops.push(ROp::Pos);
                        if matches!(sbe, RBackend::AdCursor | RBackend::AdBufReader) && wb > 1 && ci % 3 == 0 {
                            // a partial trailing word after the last whole one changes nothing
                            tight.push(0x77);
                        }
                        readhist::check("C12", &RCase { cfg: RCfg { e, kind, be: sbe }, image: tight, ops: tops }, rep, false);
                        rep.count("byte_reads_ending_in_the_last_word_of_a_strict_stream", 1);
                    }
                    ci += 1;
                }
            }
            if ctx.tier == Tier::Thorough {
                rep.exhaustive(&format!("{}/{}: every read length 0..=40 at every bit offset 0..={}", e.name(), kind.name(), 2 * w));
            }
        }
    })
}

pub fn replay(case: &str, rep: &mut Report) {
    if case.contains("image=") {
        readhist::check("C12", &RCase::from_kv(case), rep, false);
    } else {
        c01::replay(case, rep);
    }
}
