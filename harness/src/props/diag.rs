//! The library's "insufficient look-ahead" diagnostic is an eprintln! at reader
//! construction. It is *observed* here: a child process constructs one reader
//! kind, its stderr is captured, and the (reader kind, table) pairs that were
//! flagged are parsed from it.

use crate::drivers::*;
use crate::model::En;
use std::collections::BTreeSet;
use std::sync::OnceLock;

pub fn probe_one(kind: &str) {
    let kind = *RKind::ALL.iter().find(|k| k.name() == kind).expect("bad reader kind");
    let image = vec![0u8; 16];
    for e in En::BOTH {
        let _ = make_reader(RCfg { e, kind, be: RBackend::MemZ }, &image);
    }
    println!("probe-done {}", kind.name());
}

static FLAGGED: OnceLock<Result<BTreeSet<(RKind, &'static str)>, String>> = OnceLock::new();
static ASSUME: std::sync::atomic::AtomicBool = std::sync::atomic::AtomicBool::new(false);

/// Under the interpreter no child process can be spawned: assume the exemption set instead of
/// observing it (a buffered reader is exempt for a table whose index is wider than its word).
/// Only the tiny tier (Miri stage) does this; every native run observes the diagnostic.
pub fn assume_instead_of_probing() {
    ASSUME.store(true, std::sync::atomic::Ordering::SeqCst);
}

/// Set of (reader kind, table name) for which construction printed the diagnostic.
pub fn flagged() -> Result<&'static BTreeSet<(RKind, &'static str)>, String> {
    FLAGGED
        .get_or_init(|| {
            if ASSUME.load(std::sync::atomic::Ordering::SeqCst) {
                let mut set = BTreeSet::new();
                for kind in RKind::BUFFERED {
                    for (t, bits) in [("gamma", 9usize), ("delta", 11), ("zeta", 12)] {
                        if kind.word_bits() < bits {
                            set.insert((kind, t));
                        }
                    }
                }
                return Ok(set);
            }
            let exe = std::env::current_exe().map_err(|e| e.to_string())?;
            let mut set = BTreeSet::new();
            for kind in RKind::ALL {
                let out = std::process::Command::new(&exe)
                    .arg("probe-one")
                    .arg(kind.name())
                    .output()
                    .map_err(|e| format!("cannot spawn diagnostics probe: {}", e))?;
                let stdout = String::from_utf8_lossy(&out.stdout);
                if !out.status.success() || !stdout.contains("probe-done") {
                    return Err(format!("diagnostics probe for {} failed", kind.name()));
                }
                let stderr = String::from_utf8_lossy(&out.stderr);
                for line in stderr.lines() {
                    if !line.contains("DANGER") {
                        continue;
                    }
                    if line.contains('γ') {
                        set.insert((kind, "gamma"));
                    }
                    if line.contains('δ') {
                        set.insert((kind, "delta"));
                    }
                    if line.contains('ζ') {
                        set.insert((kind, "zeta"));
                    }
                }
            }
            Ok(set)
        })
        .as_ref()
        .map_err(|e| e.clone())
}

/// May this explicit table option be exercised on this reader kind?
pub fn tables_allowed(kind: RKind, op: &CodeOp) -> Result<bool, String> {
    let f = flagged()?;
    Ok(op.explicit_read_tables().iter().all(|t| !f.contains(&(kind, *t))))
}

pub fn describe() -> String {
    match flagged() {
        Ok(f) => f.iter().map(|(k, t)| format!("{}:{}", k.name(), t)).collect::<Vec<_>>().join(","),
        Err(e) => format!("unavailable: {}", e),
    }
}
