//! Engine shared by C03 (round trip at any position), C04 (codewords equal the
//! published definitions) and C06 (length functions): write one code between
//! filler and sentinels with a real writer, look at the bytes, read it back
//! with real readers, compare lengths.

use super::common::*;
use super::diag;
use crate::drivers::*;
use crate::model::*;
use crate::report::{hex, Kv, Report};
use crate::rng::Rng;
use dsi_bitstream::prelude as lib;
use dsi_bitstream::prelude::CodeLen;

#[derive(Clone, Debug)]
pub struct CodeCase {
    pub e: En,
    pub w: WWord,
    pub wop: CodeOp,
    pub value: u64,
    pub offset: usize,
    pub seed: u64,
}

impl CodeCase {
    pub fn to_kv(&self) -> String {
        format!("e={} w={} wop={} value={} offset={} seed={}", self.e.name(), self.w.name(), codeop_to_string(&self.wop), self.value, self.offset, self.seed)
    }
    pub fn from_kv(kv: &Kv) -> CodeCase {
        CodeCase {
            e: parse_en(kv.get("e")),
            w: *WWord::ALL.iter().find(|w| w.name() == kv.get("w")).unwrap(),
            wop: parse_codeop(kv.get("wop")),
            value: kv.u64("value"),
            offset: kv.usize("offset"),
            seed: kv.u64("seed"),
        }
    }
}

pub fn write_methods(code: Code) -> Vec<CodeOp> {
    let mut v = vec![CodeOp::Std(code)];
    match code {
        Code::Gamma => v.extend([CodeOp::GammaP(true), CodeOp::GammaP(false)]),
        Code::Delta => v.extend([CodeOp::DeltaP(true, true), CodeOp::DeltaP(true, false), CodeOp::DeltaP(false, true), CodeOp::DeltaP(false, false)]),
        Code::Zeta(3) => v.extend([CodeOp::Zeta3Def, CodeOp::Zeta3P(true), CodeOp::Zeta3P(false), CodeOp::ZetaKP(3, true), CodeOp::ZetaKP(3, false)]),
        Code::Zeta(k) => v.extend([CodeOp::ZetaKP(k, true), CodeOp::ZetaKP(k, false)]),
        _ => {}
    }
    v
}

/// read methods that count as "reading that code" on this reader kind: the
/// standard entry points and tables-off variants everywhere, explicit
/// tables-on only where construction printed no diagnostic for that table.
pub fn read_methods(code: Code, kind: RKind) -> Result<Vec<CodeOp>, String> {
    let mut v = vec![CodeOp::Std(code)];
    let cand: Vec<CodeOp> = match code {
        Code::Gamma => vec![CodeOp::GammaP(false), CodeOp::GammaP(true)],
        Code::Delta => vec![CodeOp::DeltaP(false, false), CodeOp::DeltaP(true, true), CodeOp::DeltaP(true, false), CodeOp::DeltaP(false, true)],
        Code::Zeta(3) => vec![CodeOp::Zeta3Def, CodeOp::Zeta3P(false), CodeOp::Zeta3P(true), CodeOp::ZetaKP(3, false)],
        Code::Zeta(k) => vec![CodeOp::ZetaKP(k, false)],
        _ => vec![],
    };
    for c in cand {
        if diag::tables_allowed(kind, &c)? {
            v.push(c);
        }
    }
    Ok(v)
}

pub struct Written {
    /// image padded with zeros to a multiple of 16 bytes (any reader word works)
    pub image16: Vec<u8>,
    pub model_bits: Bits,
    pub code_len: usize,
    pub sentinel: u64,
    pub trailer_gamma: u64,
}

/// Write filler(offset) + code + sentinel(64) + gamma + 5 bits with a real writer.
/// Checks (always): return value of the code write = model length; image = model image.
pub fn write_case(prop: &str, c: &CodeCase, rep: &mut Report, judge_image: bool, judge_ret: bool) -> Option<Written> {
    let e = c.e;
    let mut rng = Rng::derive(c.seed, (c.offset as u64 * 31).wrapping_add(c.value));
    // recording backend: the number of words a single code write may deliver is bounded by the
    // model length (a write that runs away is a budget panic, not a watchdog timeout)
    let mut h = make_writer(WCfg { e, w: c.w, be: WBackend::Rec(None) });
    let mut mb: Bits = vec![];
    let mut left = c.offset;
    while left > 0 {
        let n = left.min(64).min(1 + rng.below(64) as usize);
        let v = rng.next() & if n == 64 { u64::MAX } else { (1u64 << n) - 1 };
        if !guard(|| h.w.write_bits(v, n)).is_ok() {
            rep.inconclusive(format!("{}: filler write failed", prop));
            return None;
        }
        push_bits(&mut mb, e, v, n);
        left -= n;
    }
    let code = c.wop.code();
    let before = mb.len();
    push_code(&mut mb, e, code, c.value);
    let clen = mb.len() - before;
    if let Some(l) = &h.log {
        let mut l = l.borrow_mut();
        l.calls_this_op = 0;
        l.budget = ((c.offset + clen) / c.w.bits()) as u64 + 8;
    }
    let got = guard(|| h.w.write_code(c.wop, c.value));
    if let Some(l) = &h.log {
        let mut l = l.borrow_mut();
        l.calls_this_op = 0;
        l.budget = 1 << 20;
    }
    rep.eval(1);
    let sig = format!("{}|{}|{}|{}", e.name(), c.w.name(), code.family(), c.wop.name().split('(').next().unwrap_or(""));
    match &got {
        Out::Ok(r) if *r == clen => {}
        Out::Ok(r) => {
            if judge_ret {
                rep.violation(&format!("{}|write-ret", sig), || format!("{} of {} returned {} but the codeword has {} bits", c.wop.name(), c.value, r, clen), || c.to_kv());
            }
        }
        o => {
            rep.violation(&format!("{}|write|{}", sig, o.class()), || format!("{} of {} at offset {}: {}", c.wop.name(), c.value, c.offset, o.show()), || c.to_kv());
            return None;
        }
    }
    let sentinel = rng.next();
    let tg = 1 + rng.below(5000);
    let tail = rng.next() & 31;
    let _ = guard(|| h.w.write_bits(sentinel, 64));
    let _ = guard(|| h.w.write_code(CodeOp::GammaP(false), tg));
    let _ = guard(|| h.w.write_bits(tail, 5));
    push_bits(&mut mb, e, sentinel, 64);
    push_code(&mut mb, e, Code::Gamma, tg);
    push_bits(&mut mb, e, tail, 5);
    let bytes = match guard(|| h.w.into_bytes().unwrap()) {
        Out::Ok(b) => b,
        o => {
            rep.violation(&format!("{}|into_inner|{}", sig, o.class()), || o.show(), || c.to_kv());
            return None;
        }
    };
    let img = image(&mb, e, c.w.bytes());
    if bytes != img {
        if judge_image {
            // locate the first differing bit to tell codeword errors from neighbours
            let gb = bits_of_image(&bytes, e);
            let first = (0..mb.len().min(gb.len())).find(|i| gb[*i] != mb[*i]).unwrap_or(mb.len().min(gb.len()));
            let region = if first < before { "filler" } else if first < before + clen { "codeword" } else { "after" };
            rep.violation(
                &format!("{}|bits|{}", sig, region),
                || {
                    format!(
                        "{} of {} at offset {}: written bits {} but definition gives {} (first difference at bit {} of the codeword)",
                        c.wop.name(),
                        c.value,
                        c.offset,
                        bits_to_string(&gb[before.min(gb.len())..(before + clen).min(gb.len())]),
                        bits_to_string(&mb[before..before + clen]),
                        first as i64 - before as i64
                    )
                },
                || c.to_kv(),
            );
        }
        // the readers are then checked against what the model says the stream should be
    }
    let mut image16 = bytes;
    let l = image16.len().div_ceil(16) * 16;
    image16.resize(l, 0);
    Some(Written { image16, model_bits: mb, code_len: clen, sentinel, trailer_gamma: tg })
}

/// Read the code back at its position with one reader / method and check value,
/// end position, sentinel and trailing gamma.
pub fn read_case(prop: &str, c: &CodeCase, wr: &Written, rcfg: RCfg, rop: CodeOp, rep: &mut Report, approach: u8) {
    let e = c.e;
    let mut h = make_reader(rcfg, &wr.image16);
    let code = rop.code();
    let sig = format!("{}|{}|{}|{}", e.name(), rcfg.kind.name(), code.family(), rop.name().split('(').next().unwrap_or(""));
    let kvf = || format!("{} rcfg={} rop={} approach={}", c.to_kv(), rcfg.name(), codeop_to_string(&rop), approach);
    // reach the offset: by skip, by reads, or by seek
    let mut left = c.offset;
    match approach % 3 {
        0 => {
            let _ = guard(|| h.r.skip_bits(left));
        }
        1 => {
            while left > 0 {
                let n = left.min(61);
                let _ = guard(|| h.r.read_bits(n));
                left -= n;
            }
        }
        _ => {
            let _ = guard(|| h.r.set_bit_pos(c.offset as u64).unwrap());
        }
    }
    rep.eval(1);
    let got = guard(|| h.r.read_code(rop));
    match &got {
        Out::Ok(v) if *v == c.value => {}
        o => {
            rep.violation(
                &format!("{}|{}", sig, if o.is_ok() { "wrong-value".to_string() } else { o.class() }),
                || format!("wrote {} with {} ({} writer) at offset {}, {} on {} returned {}", c.value, c.wop.name(), c.w.name(), c.offset, rop.name(), rcfg.name(), o.show()),
                kvf,
            );
            return;
        }
    }
    let endpos = (c.offset + wr.code_len) as u64;
    match guard(|| h.r.bit_pos().unwrap()) {
        Out::Ok(p) if p == endpos => {}
        o => {
            rep.violation(
                &format!("{}|end-position", sig),
                || format!("after reading {} ({} bits at offset {}) bit_pos is {} expected {}", c.value, wr.code_len, c.offset, o.show(), endpos),
                kvf,
            );
            return;
        }
    }
    let s = guard(|| h.r.read_bits(64));
    let g = guard(|| h.r.read_code(CodeOp::GammaP(false)));
    if s != Out::Ok(wr.sentinel) || g != Out::Ok(wr.trailer_gamma) {
        rep.violation(
            &format!("{}|following-items", sig),
            || format!("items after the codeword of {} decode as {} / {} expected {:#x} / {}", c.value, s.show(), g.show(), wr.sentinel, wr.trailer_gamma),
            kvf,
        );
    }
    let _ = prop;
}

/// The same read when the codeword is the last thing in a strict stream: the image is cut at the first
/// reader-word boundary after the codeword, so every look-ahead beyond it fails. The value and the
/// position after it must be the same as in the middle of a stream.
pub fn read_case_tail(c: &CodeCase, wr: &Written, rcfg: RCfg, rop: CodeOp, rep: &mut Report, approach: u8) {
    let e = c.e;
    let rw = rcfg.kind.word_bits();
    let end = c.offset + wr.code_len;
    let nbytes = end.div_ceil(rw) * rw / 8;
    let mut img = wr.image16.clone();
    img.resize(nbytes.max(rw / 8), 0);
    let mut h = make_reader(rcfg, &img);
    let code = rop.code();
    let sig = format!("{}|{}|{}|{}|at-tail", e.name(), rcfg.kind.name(), code.family(), rop.name().split('(').next().unwrap_or(""));
    let kvf = || format!("{} rcfg={} rop={} approach={} tail=1", c.to_kv(), rcfg.name(), codeop_to_string(&rop), approach);
    match approach % 3 {
        0 => {
            let _ = guard(|| h.r.skip_bits(c.offset));
        }
        1 => {
            let mut left = c.offset;
            while left > 0 {
                let n = left.min(61);
                let _ = guard(|| h.r.read_bits(n));
                left -= n;
            }
        }
        _ => {
            let _ = guard(|| h.r.set_bit_pos(c.offset as u64).unwrap());
        }
    }
    rep.eval(1);
    let got = guard(|| h.r.read_code(rop));
    let pos = guard(|| h.r.bit_pos().unwrap());
    if got != Out::Ok(c.value) || pos != Out::Ok(end as u64) {
        rep.violation(
            &format!("{}|{}", sig, if !got.is_ok() { got.class() } else if got != Out::Ok(c.value) { "wrong-value".to_string() } else { "end-position".to_string() }),
            || format!("{} written at offset {} is the last code of a strict {}-bit stream: {} on {} returned {} ending at {} (expected {} ending at {})", c.value, c.offset, 8 * img.len(), rop.name(), rcfg.name(), got.show(), pos.show(), c.value, end),
            kvf,
        );
    }
}

/// Every library length function for this code (name, value).
pub fn lib_lens(code: Code, v: u64) -> Vec<(String, Out<usize>)> {
    let mut out: Vec<(String, Out<usize>)> = vec![];
    let mut push = |name: &str, f: &dyn Fn() -> usize| out.push((name.to_string(), guard_v(f)));
    let codes_variant: Option<lib::Codes> = match code {
        Code::Unary => Some(lib::Codes::Unary),
        Code::Gamma => Some(lib::Codes::Gamma),
        Code::Delta => Some(lib::Codes::Delta),
        Code::Omega => Some(lib::Codes::Omega),
        Code::Zeta(k) => Some(lib::Codes::Zeta { k: k as usize }),
        Code::Pi(k) => Some(lib::Codes::Pi { k: k as usize }),
        Code::Golomb(b) => {
            if b <= usize::MAX as u64 {
                Some(lib::Codes::Golomb { b: b as usize })
            } else {
                None
            }
        }
        Code::Rice(k) => Some(lib::Codes::Rice { log2_b: k as usize }),
        Code::ExpGolomb(k) => Some(lib::Codes::ExpGolomb { k: k as usize }),
        Code::MinBin(_) => None,
        Code::VByteBe => Some(lib::Codes::VByteBe),
        Code::VByteLe => Some(lib::Codes::VByteLe),
    };
    match code {
        Code::Unary => {}
        Code::Gamma => {
            push("len_gamma", &|| lib::len_gamma(v));
            push("len_gamma_param<true>", &|| lib::len_gamma_param::<true>(v));
            push("len_gamma_param<false>", &|| lib::len_gamma_param::<false>(v));
        }
        Code::Delta => {
            push("len_delta", &|| lib::len_delta(v));
            push("len_delta_param<true,true>", &|| lib::len_delta_param::<true, true>(v));
            push("len_delta_param<true,false>", &|| lib::len_delta_param::<true, false>(v));
            push("len_delta_param<false,true>", &|| lib::len_delta_param::<false, true>(v));
            push("len_delta_param<false,false>", &|| lib::len_delta_param::<false, false>(v));
        }
        Code::Omega => push("len_omega", &|| lib::len_omega(v)),
        Code::Zeta(k) => {
            push("len_zeta", &|| lib::len_zeta(v, k as usize));
            push("len_zeta_param<true>", &|| lib::len_zeta_param::<true>(v, k as usize));
            push("len_zeta_param<false>", &|| lib::len_zeta_param::<false>(v, k as usize));
        }
        Code::Pi(k) => push("len_pi", &|| lib::len_pi(v, k as usize)),
        Code::Golomb(b) => push("len_golomb", &|| lib::len_golomb(v, b)),
        Code::Rice(k) => push("len_rice", &|| lib::len_rice(v, k as usize)),
        Code::ExpGolomb(k) => push("len_exp_golomb", &|| lib::len_exp_golomb(v, k as usize)),
        Code::MinBin(u) => push("len_minimal_binary", &|| lib::len_minimal_binary(v, u)),
        Code::VByteBe | Code::VByteLe => {
            push("bit_len_vbyte", &|| lib::bit_len_vbyte(v));
            push("8*byte_len_vbyte", &|| 8 * lib::byte_len_vbyte(v));
        }
    }
    if let Some(cv) = codes_variant {
        push("Codes::len", &|| cv.len(v));
        if let Ok(f) = lib::FuncCodeLen::new(cv) {
            push("FuncCodeLen::len", &|| f.len(v));
        }
        if let Ok(id) = cv.to_code_const() {
            if id <= 50 {
                push("ConstCode::len", &|| const_len(id, v));
            }
        }
    }
    out
}

pub fn hexs(b: &[u8]) -> String {
    hex(b)
}
