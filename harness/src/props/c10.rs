//! C10 — every dispatch mechanism performs exactly the code it names.

use super::common::*;
use crate::backends::*;
use crate::drivers::*;
use crate::model::*;
use crate::report::{hex, Kv, Report};
use crate::rng::Rng;
use crate::{par_items, Ctx};
use dsi_bitstream::prelude::*;

/// Harness-side name table: what each public identifier constant *names*.
pub fn const_names() -> Vec<(&'static str, usize, Code)> {
    use code_consts::*;
    vec![
        ("UNARY", UNARY, Code::Unary),
        ("GAMMA", GAMMA, Code::Gamma),
        ("DELTA", DELTA, Code::Delta),
        ("OMEGA", OMEGA, Code::Omega),
        ("VBYTE_BE", VBYTE_BE, Code::VByteBe),
        ("VBYTE_LE", VBYTE_LE, Code::VByteLe),
        ("ZETA1", ZETA1, Code::Zeta(1)),
        ("ZETA2", ZETA2, Code::Zeta(2)),
        ("ZETA3", ZETA3, Code::Zeta(3)),
        ("ZETA4", ZETA4, Code::Zeta(4)),
        ("ZETA5", ZETA5, Code::Zeta(5)),
        ("ZETA6", ZETA6, Code::Zeta(6)),
        ("ZETA7", ZETA7, Code::Zeta(7)),
        ("ZETA8", ZETA8, Code::Zeta(8)),
        ("ZETA9", ZETA9, Code::Zeta(9)),
        ("ZETA10", ZETA10, Code::Zeta(10)),
        ("RICE0", RICE0, Code::Rice(0)),
        ("RICE1", RICE1, Code::Rice(1)),
        ("RICE2", RICE2, Code::Rice(2)),
        ("RICE3", RICE3, Code::Rice(3)),
        ("RICE4", RICE4, Code::Rice(4)),
        ("RICE5", RICE5, Code::Rice(5)),
        ("RICE6", RICE6, Code::Rice(6)),
        ("RICE7", RICE7, Code::Rice(7)),
        ("RICE8", RICE8, Code::Rice(8)),
        ("RICE9", RICE9, Code::Rice(9)),
        ("RICE10", RICE10, Code::Rice(10)),
        ("PI0", PI0, Code::Pi(0)),
        ("PI1", PI1, Code::Pi(1)),
        ("PI2", PI2, Code::Pi(2)),
        ("PI3", PI3, Code::Pi(3)),
        ("PI4", PI4, Code::Pi(4)),
        ("PI5", PI5, Code::Pi(5)),
        ("PI6", PI6, Code::Pi(6)),
        ("PI7", PI7, Code::Pi(7)),
        ("PI8", PI8, Code::Pi(8)),
        ("PI9", PI9, Code::Pi(9)),
        ("PI10", PI10, Code::Pi(10)),
        ("GOLOMB1", GOLOMB1, Code::Golomb(1)),
        ("GOLOMB2", GOLOMB2, Code::Golomb(2)),
        ("GOLOMB3", GOLOMB3, Code::Golomb(3)),
        ("GOLOMB4", GOLOMB4, Code::Golomb(4)),
        ("GOLOMB5", GOLOMB5, Code::Golomb(5)),
        ("GOLOMB6", GOLOMB6, Code::Golomb(6)),
        ("GOLOMB7", GOLOMB7, Code::Golomb(7)),
        ("GOLOMB8", GOLOMB8, Code::Golomb(8)),
        ("GOLOMB9", GOLOMB9, Code::Golomb(9)),
        ("GOLOMB10", GOLOMB10, Code::Golomb(10)),
        ("EXP_GOLOMB0", EXP_GOLOMB0, Code::ExpGolomb(0)),
        ("EXP_GOLOMB1", EXP_GOLOMB1, Code::ExpGolomb(1)),
        ("EXP_GOLOMB2", EXP_GOLOMB2, Code::ExpGolomb(2)),
        ("EXP_GOLOMB3", EXP_GOLOMB3, Code::ExpGolomb(3)),
        ("EXP_GOLOMB4", EXP_GOLOMB4, Code::ExpGolomb(4)),
        ("EXP_GOLOMB5", EXP_GOLOMB5, Code::ExpGolomb(5)),
        ("EXP_GOLOMB6", EXP_GOLOMB6, Code::ExpGolomb(6)),
        ("EXP_GOLOMB7", EXP_GOLOMB7, Code::ExpGolomb(7)),
        ("EXP_GOLOMB8", EXP_GOLOMB8, Code::ExpGolomb(8)),
        ("EXP_GOLOMB9", EXP_GOLOMB9, Code::ExpGolomb(9)),
        ("EXP_GOLOMB10", EXP_GOLOMB10, Code::ExpGolomb(10)),
    ]
}

pub fn codes_of(code: Code) -> Option<Codes> {
    Some(match code {
        Code::Unary => Codes::Unary,
        Code::Gamma => Codes::Gamma,
        Code::Delta => Codes::Delta,
        Code::Omega => Codes::Omega,
        Code::VByteBe => Codes::VByteBe,
        Code::VByteLe => Codes::VByteLe,
        Code::Zeta(k) => Codes::Zeta { k: k as usize },
        Code::Pi(k) => Codes::Pi { k: k as usize },
        Code::Golomb(b) => Codes::Golomb { b: b as usize },
        Code::Rice(k) => Codes::Rice { log2_b: k as usize },
        Code::ExpGolomb(k) => Codes::ExpGolomb { k: k as usize },
        Code::MinBin(_) => return None,
    })
}

/// A dispatcher naming a code.
#[derive(Clone, Copy, Debug, PartialEq)]
pub enum D {
    CodesDyn,
    CodesStatic,
    CodesInherent,
    Func,
    Factory,
    Const(usize, bool),
    StatsCodesDyn,
    StatsCodesStatic,
    StatsFunc,
    StatsConst(usize, bool),
}
impl D {
    fn name(&self) -> String {
        match self {
            D::CodesDyn => "Codes(dynamic)".into(),
            D::CodesStatic => "Codes(static)".into(),
            D::CodesInherent => "Codes::read/write".into(),
            D::Func => "FuncCode".into(),
            D::Factory => "FactoryFuncCodeReader".into(),
            D::Const(_, st) => format!("ConstCode({})", if *st { "static" } else { "dynamic" }),
            D::StatsCodesDyn => "Stats<Codes>(dynamic)".into(),
            D::StatsCodesStatic => "Stats<Codes>(static)".into(),
            D::StatsFunc => "Stats<FuncCode>".into(),
            D::StatsConst(_, st) => format!("Stats<ConstCode>({})", if *st { "static" } else { "dynamic" }),
        }
    }
}

type W64<E> = BufBitWriter<E, MemWordWriterVec<u64, Vec<u64>>>;

fn write_via<E: EnSel>(w: &mut W64<E>, d: D, c: Codes, v: u64) -> Result<R<usize>, String>
where
    W64<E>: CodesWrite<E>,
{
    Ok((match d {
        D::CodesDyn => DynamicCodeWrite::write(&c, w, v),
        D::CodesStatic => <Codes as StaticCodeWrite<E, W64<E>>>::write(&c, w, v),
        D::CodesInherent => c.write(w, v),
        D::Func | D::Factory => {
            let f = FuncCodeWriter::<E, W64<E>>::new(c).map_err(|e| e.to_string())?;
            // new_with_func/get_func round trip as well
            let f2 = FuncCodeWriter::<E, W64<E>>::new_with_func(f.get_func());
            StaticCodeWrite::write(&f2, w, v)
        }
        D::Const(id, st) => const_write::<E, _>(id, w, v, false, st),
        D::StatsCodesDyn => DynamicCodeWrite::write(&CodesStatsWrapper::<Codes>::new(c), w, v),
        D::StatsCodesStatic => <CodesStatsWrapper<Codes> as StaticCodeWrite<E, W64<E>>>::write(&CodesStatsWrapper::<Codes>::new(c), w, v),
        D::StatsFunc => {
            let f = FuncCodeWriter::<E, W64<E>>::new(c).map_err(|e| e.to_string())?;
            StaticCodeWrite::write(&CodesStatsWrapper::<FuncCodeWriter<E, W64<E>>>::new(f), w, v)
        }
        D::StatsConst(id, st) => const_write::<E, _>(id, w, v, true, st),
    })
    .map_err(|e| e.to_string()))
}

fn read_via<E: EnSel, BR: CodesRead<E>>(r: &mut BR, d: D, c: Codes) -> Result<R<u64>, String> {
    Ok((match d {
        D::CodesDyn => DynamicCodeRead::read(&c, r),
        D::CodesStatic => <Codes as StaticCodeRead<E, BR>>::read(&c, r),
        D::CodesInherent => c.read(r),
        D::Func | D::Factory => {
            let f = FuncCodeReader::<E, BR>::new(c).map_err(|e| e.to_string())?;
            let f2 = FuncCodeReader::<E, BR>::new_with_func(f.get_func());
            StaticCodeRead::read(&f2, r)
        }
        D::Const(id, st) => const_read::<E, _>(id, r, false, st),
        D::StatsCodesDyn => DynamicCodeRead::read(&CodesStatsWrapper::<Codes>::new(c), r),
        D::StatsCodesStatic => <CodesStatsWrapper<Codes> as StaticCodeRead<E, BR>>::read(&CodesStatsWrapper::<Codes>::new(c), r),
        D::StatsFunc => {
            let f = FuncCodeReader::<E, BR>::new(c).map_err(|e| e.to_string())?;
            StaticCodeRead::read(&CodesStatsWrapper::<FuncCodeReader<E, BR>>::new(f), r)
        }
        D::StatsConst(id, st) => const_read::<E, _>(id, r, true, st),
    })
    .map_err(|e| e.to_string()))
}

fn len_via(d: D, c: Codes, v: u64) -> Result<usize, String> {
    Ok(match d {
        D::CodesDyn | D::CodesStatic | D::CodesInherent | D::StatsCodesDyn | D::StatsCodesStatic => c.len(v),
        D::Func | D::Factory | D::StatsFunc => {
            let f = FuncCodeLen::new(c).map_err(|e| e.to_string())?;
            FuncCodeLen::new_with_func(f.get_func()).len(v)
        }
        D::Const(id, _) | D::StatsConst(id, _) => const_len(id, v),
    })
}

/// Reader factory over a word slice (for FactoryFuncCodeReader).
pub struct Fac<E> {
    data: Vec<u32>,
    _e: core::marker::PhantomData<E>,
}
macro_rules! impl_fac {
    ($E:ty) => {
        impl CodesReaderFactory<$E> for Fac<$E> {
            type CodesReader<'a> = BufBitReader<$E, MemWordReader<u32, &'a [u32]>>;
            fn new_reader(&self) -> Self::CodesReader<'_> {
                BufBitReader::<$E, _>::new(MemWordReader::new(&self.data[..]))
            }
        }
    };
}
impl_fac!(BE);
impl_fac!(LE);

#[derive(Clone, Debug)]
struct Case {
    e: En,
    name: String,
    code: Code,
    d: D,
    value: u64,
    offset: usize,
}
impl Case {
    fn to_kv(&self) -> String {
        format!("e={} name={} value={} offset={} d={}", self.e.name(), self.name, self.value, self.offset, self.d.name().replace(' ', "_"))
    }
}

macro_rules! run_case {
    ($E:ty, $c:expr, $rep:expr) => {{
        let c: &Case = $c;
        let rep: &mut Report = $rep;
        let e = c.e;
        let codes = match codes_of(c.code) {
            Some(x) => x,
            None => return,
        };
        let sig = format!("{}|{}|{}", e.name(), c.d.name(), c.code.family());
        let kvf = || c.to_kv();
        let filler = 0x1234_5678_9abc_def0u64;
        // --- direct trait method: the reference behaviour of "the code it names" ---
        let mut dv: Vec<u64> = vec![];
        let direct_ret;
        {
            let mut w = BufBitWriter::<$E, _>::new(MemWordWriterVec::new(&mut dv));
            w.write_bits(filler & ((1u64 << c.offset) - 1).max(0), c.offset).unwrap();
            let mut b = WBoxRef(&mut w);
            direct_ret = guard(|| b.write_code(CodeOp::Std(c.code), c.value));
            w.write_bits(0xABCD, 16).unwrap();
        }
        // --- write through the dispatcher ---
        let mut w: W64<$E> = BufBitWriter::new(MemWordWriterVec::new(Vec::<u64>::new()));
        w.write_bits(filler & ((1u64 << c.offset) - 1).max(0), c.offset).unwrap();
        let got = guard(|| match write_via::<$E>(&mut w, c.d, codes, c.value) {
            Ok(r) => r.map(Some),
            Err(_) => Ok(None),
        });
        rep.eval(1);
        let constructed = !matches!(got, Out::Ok(None));
        if !constructed {
            rep.count("dispatcher_constructor_refused", 1);
        } else {
            let _ = w.write_bits(0xABCD, 16);
            let bytes = bytes_from_words(&w.into_inner().unwrap().into_inner());
            let dbytes = bytes_from_words(&dv);
            let ret_ok = match (&got, &direct_ret) {
                (Out::Ok(Some(a)), Out::Ok(b)) => a == b,
                _ => false,
            };
            if !ret_ok || bytes != dbytes {
                rep.violation(
                    &format!("{}|write|{}", sig, if !got.is_ok() { got.class() } else if !ret_ok { "wrong-length".into() } else { "wrong-bits".into() }),
                    || format!("{} naming {} wrote {} -> {} bytes {}; the direct method {} gives {} bytes {}", c.d.name(), c.name, c.value, got.show(), hex(&bytes), c.code.name(), direct_ret.show(), hex(&dbytes)),
                    kvf,
                );
            }
            // round trip: read with the same dispatcher what it wrote
            let words32: Vec<u32> = words_from_bytes(&bytes);
            let mut r = BufBitReader::<$E, _>::new(MemWordReader::new(words32));
            r.skip_bits(c.offset).unwrap();
            let back = guard(|| read_via::<$E, _>(&mut r, c.d, codes).unwrap_or(Err("refused".into())));
            rep.eval(1);
            if back != Out::Ok(c.value) {
                rep.violation(&format!("{}|round-trip|{}", sig, if back.is_ok() { "wrong-value".into() } else { back.class() }), || format!("{} naming {} wrote {} and read back {}", c.d.name(), c.name, c.value, back.show()), kvf);
            }
        }
        // --- read through the dispatcher what the direct method wrote ---
        let dbytes = bytes_from_words(&dv);
        let endpos = match &direct_ret {
            Out::Ok(l) => (c.offset + *l) as u64,
            _ => return,
        };
        macro_rules! read_check {
            ($reader:expr, $rname:expr) => {{
                let mut r = $reader;
                r.skip_bits(c.offset).unwrap();
                let v = guard(|| match read_via::<$E, _>(&mut r, c.d, codes) {
                    Ok(x) => x.map(Some),
                    Err(_) => Ok(None),
                });
                rep.eval(1);
                if !matches!(v, Out::Ok(None)) {
                    let p = guard(|| r.bit_pos().map_err(|e| e.to_string()));
                    if v != Out::Ok(Some(c.value)) || p != Out::Ok(endpos) {
                        rep.violation(
                            &format!("{}|read|{}", sig, if !v.is_ok() { v.class() } else if v != Out::Ok(Some(c.value)) { "wrong-value".into() } else { "wrong-position".into() }),
                            || format!("{} naming {} on {}: read {} ending at {}; the direct method wrote {} ending at {}", c.d.name(), c.name, $rname, v.show(), p.show(), c.value, endpos),
                            kvf,
                        );
                    }
                }
            }};
        }
        if c.d == D::Factory {
            let fac = Fac::<$E> { data: words_from_bytes(&dbytes), _e: Default::default() };
            match FactoryFuncCodeReader::<$E, Fac<$E>>::new(codes) {
                Err(_) => rep.count("dispatcher_constructor_refused", 1),
                Ok(ff) => {
                    let mut r = fac.new_reader();
                    r.skip_bits(c.offset).unwrap();
                    let f = ff.get();
                    let v = guard(|| StaticCodeRead::read(&f, &mut r).map_err(|e| e.to_string()));
                    let p = guard(|| r.bit_pos().map_err(|e| e.to_string()));
                    let mut r2 = fac.new_reader();
                    r2.skip_bits(c.offset).unwrap();
                    let v2 = guard(|| (ff.inner())(&mut r2).map_err(|e| e.to_string()));
                    rep.eval(2);
                    if v != Out::Ok(c.value) || p != Out::Ok(endpos) || v2 != Out::Ok(c.value) {
                        rep.violation(
                            &format!("{}|read|{}", sig, if v.is_ok() && v2.is_ok() { "wrong-value-or-position".to_string() } else { v.class() }),
                            || format!("factory reader naming {}: get() read {} ending at {}, inner() read {}; the direct method wrote {} ending at {}", c.name, v.show(), p.show(), v2.show(), c.value, endpos),
                            kvf,
                        );
                    }
                }
            }
        } else {
            read_check!(BufBitReader::<$E, _>::new(MemWordReader::new(words_from_bytes::<u32>(&dbytes))), "buf-u32");
            read_check!(BitReader::<$E, _>::new(MemWordReader::new(words_from_bytes::<u64>(&dbytes))), "unbuf-u64");
            if c.value % 3 == 0 {
                read_check!(BufBitReader::<$E, _>::new(MemWordReader::new(words_from_bytes::<u16>(&dbytes))), "buf-u16");
            }
            // the smallest word: a dispatcher must leave the choice of decoding tables to the reader
            // (a one-byte word cannot feed the wider look-up tables)
            read_check!(BufBitReader::<$E, _>::new(MemWordReader::new(dbytes.clone())), "buf-u8");
            if c.value % 5 == 0 {
                read_check!(BufBitReader::<$E, _>::new(MemWordReader::new(words_from_bytes::<u64>(&dbytes))), "buf-u64");
            }
        }
        // --- length ---
        rep.eval(1);
        let model_len = code_len(c.code, c.value);
        match guard(|| len_via(c.d, codes, c.value)) {
            Out::Err(_) => {}
            Out::Ok(l) if l as u128 == model_len && Out::Ok(l) == direct_ret => {}
            o => rep.violation(&format!("{}|len", sig), || format!("{} naming {}: len({}) = {} but the direct method wrote {} bits (model {})", c.d.name(), c.name, c.value, o.show(), direct_ret.show(), model_len), kvf),
        }
        rep.case(&(c.name.clone(), c.d.name(), c.value, e));
    }};
}

/// minimal adapter to call `write_code` on a borrowed concrete writer
struct WBoxRef<'a, BW>(&'a mut BW);
impl<'a, BW> WBoxRef<'a, BW> {
    fn write_code<E: EnSel>(&mut self, op: CodeOp, v: u64) -> R<usize>
    where
        BW: CodesWrite<E>,
    {
        let w = &mut *self.0;
        (match op {
            CodeOp::Std(c) => match c {
                Code::Unary => w.write_unary(v),
                Code::Gamma => w.write_gamma(v),
                Code::Delta => w.write_delta(v),
                Code::Omega => w.write_omega(v),
                Code::Zeta(k) => w.write_zeta(v, k as usize),
                Code::Pi(k) => w.write_pi(v, k as usize),
                Code::Golomb(b) => w.write_golomb(v, b),
                Code::Rice(k) => w.write_rice(v, k as usize),
                Code::ExpGolomb(k) => w.write_exp_golomb(v, k as usize),
                Code::MinBin(u) => w.write_minimal_binary(v, u),
                Code::VByteBe => w.write_vbyte_be(v),
                Code::VByteLe => w.write_vbyte_le(v),
            },
            _ => unreachable!(),
        })
        .map_err(|e| e.to_string())
    }
}

fn check_case(c: &Case, rep: &mut Report) {
    match c.e {
        En::BE => run_case!(BE, c, rep),
        En::LE => run_case!(LE, c, rep),
    }
}

/// The statistics mechanism names a code: computing the length of the data with *that* code through
/// the length dispatcher (`CodeLen for Codes`) must give the space the statistics report for it.
fn stats_named_code(seed: u64, rounds: usize, rep: &mut Report) {
    let mut rng = Rng::derive(seed, 0xC10_57A7);
    for r in 0..rounds {
        // distributions with different winners: geometric-ish, uniform below 2^k, heavy tails
        let shape = r % 6;
        let k = 1 + rng.below(40) as u32;
        let n = 20 + rng.below(300) as usize;
        let vals: Vec<u64> = (0..n)
            .map(|_| match shape {
                0 => {
                    let m = 1 + rng.below(8);
                    rng.below(m)
                }
                1 => rng.below(1u64 << k),
                2 => rng.log_uniform(k + 8),
                3 => {
                    let sh = 20 + rng.below(20);
                    (1u64 << sh) + rng.below(1 << 20)
                }
                4 => {
                    let a = rng.log_uniform(20);
                    a.wrapping_mul(rng.log_uniform(20))
                }
                _ => {
                    let a = rng.below(200);
                    let b = (rng.below(5) == 0) as u64;
                    a + b * rng.log_uniform(50)
                }
            })
            .collect();
        macro_rules! one {
            ($Z:expr, $G:expr, $EG:expr, $R:expr, $P:expr) => {{
                let mut s = CodesStats::<$Z, $G, $EG, $R, $P>::default();
                for v in &vals {
                    s.update(*v);
                }
                let (code, total) = s.best_code();
                let mine: u128 = vals.iter().map(|v| code.len(*v) as u128).sum();
                rep.eval(1);
                rep.cover("stats_winners", crate::report::hash_of(&format!("{:?}", code)));
                rep.case(&("stats-winner", format!("{:?}", code), $P));
                if mine != total as u128 {
                    rep.violation(
                        &format!("stats|named-code-length|{}", format!("{:?}", code).split(|c: char| !c.is_alphabetic()).next().unwrap_or("")),
                        || format!("statistics over {} values name {:?} with {} bits, but the length dispatcher of {:?} gives {} bits for the same values", vals.len(), code, total, code, mine),
                        || format!("stats=1 seed={} round={}", seed, r),
                    );
                }
            }};
        }
        one!(10, 20, 10, 10, 10);
        one!(3, 2, 2, 2, 6);
        one!(1, 1, 1, 1, 1);
    }
}

pub fn run(ctx: &Ctx) -> Report {
    // identifiers: every public constant name; variants: parameters 0..=10 and beyond
    let mut named: Vec<(String, Code, Vec<D>)> = vec![];
    for (n, id, code) in const_names() {
        named.push((
            format!("const:{}", n),
            code,
            vec![D::Const(id, false), D::Const(id, true), D::StatsConst(id, false), D::StatsConst(id, true)],
        ));
    }
    let mut variants: Vec<Code> = vec![Code::Unary, Code::Gamma, Code::Delta, Code::Omega, Code::VByteBe, Code::VByteLe];
    for k in (0..=10u32).chain([11, 16, 31, 63].into_iter()) {
        if k >= 1 {
            variants.push(Code::Zeta(k));
            variants.push(Code::Golomb(k as u64));
        }
        variants.push(Code::Pi(k));
        variants.push(Code::Rice(k));
        variants.push(Code::ExpGolomb(k));
    }
    variants.push(Code::Golomb(1000));
    for code in variants {
        named.push((
            format!("codes:{}", code.name()),
            code,
            vec![D::CodesDyn, D::CodesStatic, D::CodesInherent, D::Func, D::Factory, D::StatsCodesDyn, D::StatsCodesStatic, D::StatsFunc],
        ));
    }
    let mut work: Vec<(En, usize)> = vec![];
    for e in En::BOTH {
        for i in 0..named.len() {
            work.push((e, i));
        }
    }
    let mut rep = par_items(ctx, "C10", &work, |&(e, i), rep| {
        let (name, code, ds) = &named[i];
        if i < 8 && e == En::BE {
            stats_named_code(ctx.seed ^ i as u64, ctx.pick(6, 300, 3000), rep);
        }
        // the wrapper is a dispatcher used through &self from several threads: every read and write it
        // passes through must also be recorded, whatever the interleaving (the workload of C15)
        if i < 4 && ctx.tier != crate::Tier::Tiny {
            for rpt in 0..ctx.pick(1, 6, 20) {
                super::c15::check_threads([2usize, 4, 8][(i + rpt) % 3], 60, ctx.seed ^ (0xC10 + (i * 100 + rpt) as u64), rep);
            }
        }
        let mut rng = Rng::derive(ctx.seed, crate::report::hash_of(&(0xC10u64, e, i as u64)));
        let mut values = value_grid(*code, ctx.pick(8, 128, 300), &mut rng, ctx.pick(2, 60, 400));
        values.retain(|v| code_len(*code, *v) <= 2000);
        for (vi, v) in values.iter().enumerate() {
            for d in ds {
                // the statistics wrapper evaluates the length of *every* tracked code for the value,
                // so its domain is that of the universal codes (<= 2^64 - 2) whatever code it wraps
                if matches!(d, D::StatsCodesDyn | D::StatsCodesStatic | D::StatsFunc | D::StatsConst(_, _)) && *v == u64::MAX {
                    continue;
                }
                let offset = [0usize, 1, 13, 31, 63][(vi + i) % 5];
                check_case(&Case { e, name: name.clone(), code: *code, d: *d, value: *v, offset }, rep);
            }
            if vi == 3 {
                rep.sample(|| format!("{} {} value {} through {:?}", e.name(), name, v, ds.iter().map(|d| d.name()).collect::<Vec<_>>()));
            }
        }
    });
    rep.exhaustive("all 51 identifier constants (59 public names incl. aliases) x every dispatcher kind x read/write/len");
    rep
}

pub fn replay(case: &str, rep: &mut Report) {
    if case.starts_with("stats=1") {
        let kv = Kv::parse(case);
        stats_named_code(kv.u64("seed"), kv.usize("round") + 1, rep);
        return;
    }
    let kv = Kv::parse(case);
    let name = kv.get("name").to_string();
    let e = parse_en(kv.get("e"));
    // re-run every dispatcher kind for that name and value
    let value = kv.u64("value");
    let offset = kv.usize("offset");
    if let Some(n) = name.strip_prefix("const:") {
        for (cn, id, code) in const_names() {
            if cn == n {
                for d in [D::Const(id, false), D::Const(id, true), D::StatsConst(id, false), D::StatsConst(id, true)] {
                    check_case(&Case { e, name: name.clone(), code, d, value, offset }, rep);
                }
            }
        }
    } else if let Some(n) = name.strip_prefix("codes:") {
        let mut all: Vec<Code> = vec![Code::Unary, Code::Gamma, Code::Delta, Code::Omega, Code::VByteBe, Code::VByteLe];
        for k in 0..=64u32 {
            all.extend([Code::Zeta(k.max(1)), Code::Pi(k), Code::Rice(k), Code::ExpGolomb(k), Code::Golomb(k.max(1) as u64)]);
        }
        all.push(Code::Golomb(1000));
        if let Some(code) = all.into_iter().find(|c| c.name() == n) {
            for d in [D::CodesDyn, D::CodesStatic, D::CodesInherent, D::Func, D::Factory, D::StatsCodesDyn, D::StatsCodesStatic, D::StatsFunc] {
                check_case(&Case { e, name: name.clone(), code, d, value, offset }, rep);
            }
        }
    }
}
