//! Shared pieces of the monitors: textual forms of configurations and
//! operations (for replay files), value grids, model-side bookkeeping.

use crate::drivers::*;
use crate::model::*;
use crate::report::{hex, parse_u64, unhex};

pub fn parse_en(s: &str) -> En {
    match s {
        "BE" => En::BE,
        "LE" => En::LE,
        _ => panic!("bad endianness {}", s),
    }
}

pub fn parse_rcfg(s: &str) -> RCfg {
    let f: Vec<&str> = s.split('/').collect();
    let kind = *RKind::ALL.iter().find(|k| k.name() == f[1]).expect("bad reader kind");
    let be = *RBackend::ALL.iter().find(|b| b.name() == f[2]).expect("bad reader backend");
    RCfg { e: parse_en(f[0]), kind, be }
}

pub fn parse_wcfg(s: &str) -> WCfg {
    let f: Vec<&str> = s.split('/').collect();
    let w = *WWord::ALL.iter().find(|w| w.name() == f[1]).expect("bad writer word");
    let b = f[2];
    let be = if b == "rec" {
        WBackend::Rec(None)
    } else if let Some(c) = b.strip_prefix("rec-cap") {
        WBackend::Rec(Some(c.parse().unwrap()))
    } else if b == "vec" {
        WBackend::VecOwned
    } else if b == "vec-dirty" {
        WBackend::VecDirty
    } else if let Some(c) = b.strip_prefix("slice") {
        WBackend::Slice(c.parse().unwrap())
    } else if b == "adapter-vec" {
        WBackend::AdVec
    } else if b == "adapter-sink" {
        WBackend::AdSink
    } else if let Some(c) = b.strip_prefix("adapter-short") {
        WBackend::AdShort(c.parse().unwrap())
    } else {
        panic!("bad writer backend {}", b)
    };
    WCfg { e: parse_en(f[0]), w, be }
}

pub fn codeop_to_string(op: &CodeOp) -> String {
    fn c(code: &Code) -> String {
        match code {
            Code::Unary => "unary".into(),
            Code::Gamma => "gamma".into(),
            Code::Delta => "delta".into(),
            Code::Omega => "omega".into(),
            Code::Zeta(k) => format!("zeta.{}", k),
            Code::Pi(k) => format!("pi.{}", k),
            Code::Golomb(b) => format!("golomb.{}", b),
            Code::Rice(k) => format!("rice.{}", k),
            Code::ExpGolomb(k) => format!("expg.{}", k),
            Code::MinBin(u) => format!("minbin.{}", u),
            Code::VByteBe => "vbbe".into(),
            Code::VByteLe => "vble".into(),
        }
    }
    let b = |x: bool| if x { "t" } else { "f" };
    match op {
        CodeOp::Std(code) => c(code),
        CodeOp::GammaP(t) => format!("gammaP.{}", b(*t)),
        CodeOp::DeltaP(d, g) => format!("deltaP.{}{}", b(*d), b(*g)),
        CodeOp::Zeta3P(t) => format!("zeta3P.{}", b(*t)),
        CodeOp::ZetaKP(k, t) => format!("zetaKP.{}.{}", k, b(*t)),
        CodeOp::Zeta3Def => "zeta3def".into(),
    }
}

pub fn parse_codeop(s: &str) -> CodeOp {
    let f: Vec<&str> = s.split('.').collect();
    let t = |x: &str| x == "t";
    match f[0] {
        "unary" => CodeOp::Std(Code::Unary),
        "gamma" => CodeOp::Std(Code::Gamma),
        "delta" => CodeOp::Std(Code::Delta),
        "omega" => CodeOp::Std(Code::Omega),
        "zeta" => CodeOp::Std(Code::Zeta(f[1].parse().unwrap())),
        "pi" => CodeOp::Std(Code::Pi(f[1].parse().unwrap())),
        "golomb" => CodeOp::Std(Code::Golomb(f[1].parse().unwrap())),
        "rice" => CodeOp::Std(Code::Rice(f[1].parse().unwrap())),
        "expg" => CodeOp::Std(Code::ExpGolomb(f[1].parse().unwrap())),
        "minbin" => CodeOp::Std(Code::MinBin(f[1].parse().unwrap())),
        "vbbe" => CodeOp::Std(Code::VByteBe),
        "vble" => CodeOp::Std(Code::VByteLe),
        "gammaP" => CodeOp::GammaP(t(f[1])),
        "deltaP" => CodeOp::DeltaP(&f[1][0..1] == "t", &f[1][1..2] == "t"),
        "zeta3P" => CodeOp::Zeta3P(t(f[1])),
        "zetaKP" => CodeOp::ZetaKP(f[1].parse().unwrap(), t(f[2])),
        "zeta3def" => CodeOp::Zeta3Def,
        _ => panic!("bad code op {}", s),
    }
}

/// Operations on a writer.
#[derive(Clone, Debug, PartialEq)]
pub enum WOp {
    Bits(u64, usize),
    Unary(u64),
    Flush,
    Code(CodeOp, u64),
    IoWrite(Vec<u8>),
}

impl WOp {
    pub fn to_string(&self) -> String {
        match self {
            WOp::Bits(v, n) => format!("wb:{}:{:#x}", n, v),
            WOp::Unary(x) => format!("wu:{}", x),
            WOp::Flush => "fl".into(),
            WOp::Code(op, v) => format!("wc:{}:{}", codeop_to_string(op), v),
            WOp::IoWrite(b) => format!("io:{}", hex(b)),
        }
    }
    pub fn parse(s: &str) -> WOp {
        let f: Vec<&str> = s.split(':').collect();
        match f[0] {
            "wb" => WOp::Bits(parse_u64(f[2]), f[1].parse().unwrap()),
            "wu" => WOp::Unary(f[1].parse().unwrap()),
            "fl" => WOp::Flush,
            "wc" => WOp::Code(parse_codeop(f[1]), f[2].parse().unwrap()),
            "io" => WOp::IoWrite(unhex(f.get(1).copied().unwrap_or(""))),
            _ => panic!("bad write op {}", s),
        }
    }
    pub fn kind(&self) -> &'static str {
        match self {
            WOp::Bits(_, _) => "write_bits",
            WOp::Unary(_) => "write_unary",
            WOp::Flush => "flush",
            WOp::Code(_, _) => "write_code",
            WOp::IoWrite(_) => "io_write",
        }
    }
}

pub fn wops_to_string(ops: &[WOp]) -> String {
    if ops.is_empty() {
        return "-".into();
    }
    ops.iter().map(|o| o.to_string()).collect::<Vec<_>>().join(",")
}
pub fn parse_wops(s: &str) -> Vec<WOp> {
    if s == "-" {
        return vec![];
    }
    s.split(',').map(WOp::parse).collect()
}

/// Operations on a reader.
#[derive(Clone, Debug, PartialEq)]
pub enum ROp {
    Read(usize),
    Peek(usize),
    Skip(usize),
    Unary,
    Code(CodeOp),
    /// continue on a clone; the original is checked at the end of the history
    CloneSwitch,
    Pos,
    Seek(u64),
    IoRead(usize),
    /// a 64-bit read attempted where fewer than 64 bits remain on a strict backend: its outcome
    /// is C09's business; afterwards the reader state is unspecified until the next seek
    PastEnd,
    /// peek_bits(k) immediately followed by skip_bits_after_peek(n), n <= k (the contract of the
    /// trait method; the table decoders use exactly this pair)
    PeekSkip(usize, usize),
}

impl ROp {
    pub fn to_string(&self) -> String {
        match self {
            ROp::Read(n) => format!("rb:{}", n),
            ROp::Peek(n) => format!("pk:{}", n),
            ROp::Skip(n) => format!("sk:{}", n),
            ROp::Unary => "ru".into(),
            ROp::Code(op) => format!("rc:{}", codeop_to_string(op)),
            ROp::CloneSwitch => "cl".into(),
            ROp::Pos => "pos".into(),
            ROp::Seek(p) => format!("seek:{}", p),
            ROp::IoRead(n) => format!("ior:{}", n),
            ROp::PastEnd => "pastend".into(),
            ROp::PeekSkip(k, n) => format!("ps:{}:{}", k, n),
        }
    }
    pub fn parse(s: &str) -> ROp {
        let f: Vec<&str> = s.split(':').collect();
        match f[0] {
            "rb" => ROp::Read(f[1].parse().unwrap()),
            "pk" => ROp::Peek(f[1].parse().unwrap()),
            "sk" => ROp::Skip(f[1].parse().unwrap()),
            "ru" => ROp::Unary,
            "rc" => ROp::Code(parse_codeop(f[1])),
            "cl" => ROp::CloneSwitch,
            "pos" => ROp::Pos,
            "seek" => ROp::Seek(f[1].parse().unwrap()),
            "ior" => ROp::IoRead(f[1].parse().unwrap()),
            "pastend" => ROp::PastEnd,
            "ps" => ROp::PeekSkip(f[1].parse().unwrap(), f[2].parse().unwrap()),
            _ => panic!("bad read op {}", s),
        }
    }
    pub fn kind(&self) -> &'static str {
        match self {
            ROp::Read(_) => "read_bits",
            ROp::Peek(_) => "peek_bits",
            ROp::Skip(_) => "skip_bits",
            ROp::Unary => "read_unary",
            ROp::Code(_) => "read_code",
            ROp::CloneSwitch => "clone",
            ROp::Pos => "bit_pos",
            ROp::Seek(_) => "set_bit_pos",
            ROp::IoRead(_) => "io_read",
            ROp::PastEnd => "read_past_end",
            ROp::PeekSkip(..) => "peek_then_skip_after_peek",
        }
    }
}
pub fn rops_to_string(ops: &[ROp]) -> String {
    if ops.is_empty() {
        return "-".into();
    }
    ops.iter().map(|o| o.to_string()).collect::<Vec<_>>().join(",")
}
pub fn parse_rops(s: &str) -> Vec<ROp> {
    if s == "-" {
        return vec![];
    }
    s.split(',').map(ROp::parse).collect()
}

/// All the codes with a representative parameter grid.
pub fn code_grid(thorough: bool) -> Vec<Code> {
    let mut v = vec![Code::Unary, Code::Gamma, Code::Delta, Code::Omega, Code::VByteBe, Code::VByteLe];
    let zk: Vec<u32> = if thorough { (1..=63).collect() } else { vec![1, 2, 3, 4, 5, 6, 7, 8, 9, 10, 11, 12, 13, 15, 16, 17, 21, 22, 31, 32, 33, 47, 62, 63] };
    for k in zk {
        v.push(Code::Zeta(k));
    }
    let ks: Vec<u32> = if thorough { (0..=63).collect() } else { vec![0, 1, 2, 3, 4, 5, 6, 7, 8, 9, 10, 11, 15, 16, 17, 31, 32, 33, 47, 62, 63] };
    for &k in &ks {
        v.push(Code::Pi(k));
        v.push(Code::Rice(k));
        v.push(Code::ExpGolomb(k));
    }
    for b in bound_grid(thorough) {
        v.push(Code::Golomb(b));
        v.push(Code::MinBin(b));
    }
    v
}

/// Golomb moduli / minimal binary bounds: 1..=64 and 2^i-1, 2^i, 2^i+1, max.
pub fn bound_grid(thorough: bool) -> Vec<u64> {
    let mut v: Vec<u64> = if thorough { (1..=64).collect() } else { (1..=20).chain([31, 32, 33, 63, 64].into_iter()).collect() };
    let exps: Vec<u32> = if thorough { (7..64).collect() } else { vec![7, 8, 15, 16, 20, 31, 32, 33, 47, 62, 63] };
    for i in exps {
        let p = 1u64 << i;
        v.push(p - 1);
        v.push(p);
        v.push(p + 1);
    }
    v.push(u64::MAX);
    v.push(u64::MAX - 1);
    v.sort_unstable();
    v.dedup();
    v
}

/// Values at which the model length of the code steps (±1), found by binary
/// search over the exponent ranges, plus the boundary grid; restricted to the
/// code's domain.
pub fn value_grid(code: Code, small: u64, rng: &mut crate::rng::Rng, nrandom: usize) -> Vec<u64> {
    let max = code.max_value();
    let mut v = crate::rng::boundary_values(max, small);
    // step points of the length function: scan between consecutive powers of two
    // by bisection for every length change (there are few per octave for all codes
    // except Golomb/Rice/unary, whose steps are regular).
    let mut extra = vec![];
    let mut lo = 0u64;
    for i in 0..=64u32 {
        let hi: u64 = if i >= 64 { max } else { ((1u128 << i) as u64).min(max) };
        if hi > lo {
            step_points(code, lo, hi, &mut extra, 6);
        }
        lo = hi;
        if hi == max {
            break;
        }
    }
    v.extend(extra);
    match code {
        Code::Golomb(b) => {
            for q in [1u128, 2, 3, 7, 64, 1000] {
                for d in [-1i128, 0, 1] {
                    let x = q * b as u128;
                    let y = x as i128 + d;
                    if y >= 0 && y as u128 <= max as u128 {
                        v.push(y as u64);
                    }
                }
            }
        }
        Code::Rice(k) | Code::ExpGolomb(k) | Code::Pi(k) => {
            for q in [1u128, 2, 3, 7, 64] {
                for d in [-1i128, 0, 1] {
                    let y = (q << k) as i128 + d;
                    if y >= 0 && y as u128 <= max as u128 {
                        v.push(y as u64);
                    }
                }
            }
        }
        Code::VByteBe | Code::VByteLe => {
            let mut base: u128 = 0;
            for i in 1..=10u32 {
                base += 1u128 << (7 * i);
                for d in -2i128..=2 {
                    let y = base as i128 + d;
                    if y >= 0 && y as u128 <= max as u128 {
                        v.push(y as u64);
                    }
                }
            }
        }
        _ => {}
    }
    for _ in 0..nrandom {
        v.push(rng.log_uniform_max(max));
    }
    v.retain(|x| *x <= max);
    v.sort_unstable();
    v.dedup();
    v
}

fn step_points(code: Code, lo: u64, hi: u64, out: &mut Vec<u64>, budget: u32) {
    // find up to `budget` points p in (lo, hi] with len(p) != len(p-1)
    let mut a = lo;
    let mut found = 0;
    while found < budget && a < hi {
        let la = code_len(code, a);
        if code_len(code, hi) == la {
            return;
        }
        // first x in (a, hi] with len(x) != la
        let (mut l, mut r) = (a + 1, hi);
        while l < r {
            let m = l + (r - l) / 2;
            if code_len(code, m) != la {
                r = m;
            } else {
                l = m + 1;
            }
        }
        out.push(l);
        out.push(l - 1);
        if l < u64::MAX {
            out.push(l + 1);
        }
        a = l;
        found += 1;
    }
}

/// The largest codeword length (in bits) a monitor is willing to materialise.
pub fn lmax(thorough: bool) -> u128 {
    if thorough {
        1 << 16
    } else {
        1 << 14
    }
}
