//! One module per property: workload generator + online oracle.

use crate::report::Report;
use crate::Ctx;

pub mod common;
pub mod diag;
pub mod huge;

pub mod c01;
pub mod c02;
pub mod c03;
pub mod c04;
pub mod c05;
pub mod c09;
pub mod c10;
pub mod c11;
pub mod c12;
pub mod c13;
pub mod c14;
pub mod c15;
pub mod c16;
pub mod c17;
pub mod c18;
pub mod c20;
pub mod c06;
pub mod codes;
pub mod c07;
pub mod c08;
pub mod readhist;
pub mod c19;

pub fn run(prop: &str, ctx: &Ctx) -> Option<Report> {
    Some(match prop {
        "C01" => c01::run(ctx),
        "C02" => c02::run(ctx),
        "C03" => c03::run(ctx),
        "C04" => c04::run(ctx),
        "C05" => c05::run(ctx),
        "C09" => c09::run(ctx),
        "C10" => c10::run(ctx),
        "C11" => c11::run(ctx),
        "C12" => c12::run(ctx),
        "C13" => c13::run(ctx),
        "C14" => c14::run(ctx),
        "C15" => c15::run(ctx),
        "C16" => c16::run(ctx),
        "C17" => c17::run(ctx),
        "C18" => c18::run(ctx),
        "C19" => c19::run(ctx),
        "C20" => c20::run(ctx),
        "C06" => c06::run(ctx),
        "C07" => c07::run(ctx),
        "C08" => c08::run(ctx),
        _ => return None,
    })
}

/// Re-run one recorded case. Returns false if the property has no replay support.
pub fn replay(prop: &str, case: &str, rep: &mut Report) -> bool {
    match prop {
        "C01" => c01::replay(case, rep),
        "C02" => c02::replay(case, rep),
        "C03" => c03::replay(case, rep),
        "C04" => c04::replay(case, rep),
        "C05" => c05::replay(case, rep),
        "C09" => c09::replay(case, rep),
        "C10" => c10::replay(case, rep),
        "C11" => c11::replay(case, rep),
        "C12" => c12::replay(case, rep),
        "C13" => c13::replay(case, rep),
        "C14" => c14::replay(case, rep),
        "C15" => c15::replay(case, rep),
        "C16" => c16::replay(case, rep),
        "C17" => c17::replay(case, rep),
        "C18" => c18::replay(case, rep),
        "C19" => c19::replay(case, rep),
        "C20" => c20::replay(case, rep),
        "C06" => c06::replay(case, rep),
        "C07" => c07::replay(case, rep),
        "C08" => c08::replay(case, rep),
        _ => return false,
    }
    true
}
