//! C04 — codewords equal their published definitions (cross-implementation format).

use super::codes::*;
use super::common::*;
use crate::drivers::*;
use crate::model::*;
use crate::report::{Kv, Report};
use crate::rng::Rng;
use crate::{par_items, Ctx, Tier};

/// zeta_k is claimed only where the interval bound 2^((h+1)k) fits in 64 bits
pub fn in_claim(code: Code, v: u64) -> bool {
    match code {
        Code::Zeta(k) => {
            let h = (127 - (v as u128 + 1).leading_zeros()) / k;
            (h + 1) * k <= 63
        }
        _ => true,
    }
}

/// The same codeword written over a vector that already holds non-zero words (a reused buffer): every
/// word the codeword covers must be overwritten, zero words of a long unary part included.
pub fn on_reused_vector(e: En, code: Code, wop: CodeOp, v: u64, ci: usize, rep: &mut Report) {
    if code_len(code, v) > 24 * 8 - 8 {
        return;
    }
    let w = WWord::ALL[ci % 5];
    let mut h = make_writer(WCfg { e, w, be: WBackend::VecDirty });
    let mut mb: Bits = vec![];
    let pre = ci % 7;
    push_bits(&mut mb, e, 0x55 & ((1u64 << pre) - 1), pre);
    push_code(&mut mb, e, code, v);
    let r0 = guard(|| h.w.write_bits(0x55 & ((1u64 << pre) - 1), pre));
    let r1 = guard(|| h.w.write_code(wop, v));
    let got = guard(|| h.w.into_bytes().unwrap());
    let img = image(&mb, e, w.bytes());
    rep.eval(1);
    if !r0.is_ok() || r1 != Out::Ok(mb.len() - pre) || got != Out::Ok(img.clone()) {
        rep.violation(
            &format!("{}|{}|{}|on-reused-vector|{}", e.name(), w.name(), code.family(), if got.is_ok() { "bits" } else { "result" }),
            || format!("{} of {} over a vector holding all-ones words ({} writer, {} bits before): returned {}, image {} but the definition gives {}", wop.name(), v, w.name(), pre, r1.show(), got.show(), crate::report::hex(&img)),
            || format!("wrapper=reused e={} code={} wop={} value={} ci={}", e.name(), codeop_to_string(&CodeOp::Std(code)), codeop_to_string(&wop), v, ci),
        );
    }
}

pub fn through_wrapper(e: En, code: Code, wop: CodeOp, v: u64, ci: usize, rep: &mut Report) {
    let w = [WWord::U64, WWord::U16][ci % 2];
    let mut h = make_wrapped_writer(e, w, Wrap::Count);
    let mut mb: Bits = vec![];
    push_bits(&mut mb, e, 0b101, 3);
    push_code(&mut mb, e, code, v);
    let r0 = guard(|| h.w.write_bits(0b101, 3));
    let r1 = guard(|| h.w.write_code(wop, v));
    let r2 = guard(|| h.w.flush());
    let got = h.w.delivered().unwrap_or_default();
    let img = image(&mb, e, w.bytes());
    rep.eval(1);
    if !r0.is_ok() || r1 != Out::Ok(mb.len() - 3) || !r2.is_ok() || got != img {
        rep.violation(
            &format!("{}|{}|{}|through-CountBitWriter|{}", e.name(), w.name(), code.family(), if got != img { "bits" } else { "result" }),
            || format!("{} of {} through CountBitWriter on a {} stream: returned {}, bytes {} but the definition gives {} ({} bits)", wop.name(), v, w.name(), r1.show(), crate::report::hex(&got), crate::report::hex(&img), mb.len() - 3),
            || format!("wrapper=count e={} code={} wop={} value={} ci={}", e.name(), codeop_to_string(&CodeOp::Std(code)), codeop_to_string(&wop), v, ci),
        );
    }
}

pub fn run(ctx: &Ctx) -> Report {
    let codes = code_grid(ctx.tier == Tier::Thorough);
    let codes: Vec<Code> = if ctx.tier == Tier::Tiny { vec![Code::Gamma, Code::Delta, Code::Zeta(3), Code::Omega, Code::MinBin(11), Code::VByteBe] } else { codes };
    let mut work: Vec<(En, Code)> = vec![];
    for e in En::BOTH {
        for c in &codes {
            work.push((e, *c));
        }
    }
    par_items(ctx, "C04", &work, |&(e, code), rep| {
        let mut rng = Rng::derive(ctx.seed, crate::report::hash_of(&(0xC04u64, e, code)));
        let parameterless = matches!(code, Code::Unary | Code::Gamma | Code::Delta | Code::Omega | Code::VByteBe | Code::VByteLe | Code::Zeta(3));
        let dense: u64 = match ctx.tier {
            Tier::Tiny => 64,
            Tier::Quick => {
                if parameterless {
                    1 << 16
                } else {
                    1 << 12
                }
            }
            Tier::Thorough => 1 << 16,
        };
        let lm = lmax(ctx.tier == Tier::Thorough).min(if code == Code::Unary { 4200 } else { u128::MAX });
        let mut values: Vec<u64> = (0..dense.min(code.max_value().saturating_add(1).max(1))).collect();
        values.extend(value_grid(code, 0, &mut rng, ctx.pick(2, 30, 300)));
        values.sort_unstable();
        values.dedup();
        let wms = write_methods(code);
        for (ci, &v) in values.iter().enumerate() {
            if v > code.max_value() || code_len(code, v) > lm {
                continue;
            }
            if !in_claim(code, v) {
                rep.count("zeta_values_outside_the_claim", 1);
                continue;
            }
            // every write method for the table-capable codes; word and offset rotate
            for (mi, wop) in wms.iter().enumerate() {
                let w = WWord::ALL[(ci + mi) % 5];
                let offset = match (ci + mi) % 4 {
                    0 => 0,
                    1 => 1 + (ci % 7),
                    2 => w.bits() - 1 - (ci % 3).min(w.bits() - 1),
                    _ => rng.below(2 * w.bits() as u64 + 2) as usize,
                };
                let case = CodeCase { e, w, wop: *wop, value: v, offset, seed: ctx.seed ^ ci as u64 };
                if write_case("C04", &case, rep, true, false).is_some() {
                    rep.case(&(code, v, e));
                }
                if ci % 4099 == 0 {
                    rep.sample(|| format!("{} -> {} bits: {}", case.to_kv(), code_len(code, v), bits_to_string(&encode(e, code, v))));
                }
            }
            // the codeword alone in a writer, every word size, for values on the boundary grid
            if ci % 17 == 0 || v >= dense {
                for w in WWord::ALL {
                    let case = CodeCase { e, w, wop: wms[ci % wms.len()], value: v, offset: 0, seed: ctx.seed };
                    write_case("C04", &case, rep, true, false);
                }
                // the format does not depend on how the writer is dressed: through the counting wrapper
                // (whose write_bits / write_unary the table-free encoders go through) the bits are the same
                through_wrapper(e, code, wms[(ci / 17) % wms.len()], v, ci, rep);
                on_reused_vector(e, code, wms[(ci / 17) % wms.len()], v, ci, rep);
                // the byte-level VByte writers must put the complete codeword into any std::io sink
                if matches!(code, Code::VByteBe) && e == En::BE {
                    super::c18::check_hostile_io(v, ci, rep);
                }
            }
        }
        if ctx.tier != Tier::Tiny {
            rep.exhaustive(&format!("{} {}: every value below {}", e.name(), code.name(), dense));
        }
    })
}

pub fn replay(case: &str, rep: &mut Report) {
    let kv = Kv::parse(case);
    if kv.opt("wrapper").is_some() {
        let code = parse_codeop(kv.get("code")).code();
        if kv.get("wrapper") == "reused" {
            on_reused_vector(parse_en(kv.get("e")), code, parse_codeop(kv.get("wop")), kv.u64("value"), kv.usize("ci"), rep);
            return;
        }
        through_wrapper(parse_en(kv.get("e")), code, parse_codeop(kv.get("wop")), kv.u64("value"), kv.usize("ci"), rep);
        return;
    }
    let c = CodeCase::from_kv(&kv);
    write_case("C04", &c, rep, true, false);
}
