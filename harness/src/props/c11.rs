//! C11 — the byte-stream word adapter is transparent and loss-free under I/O faults.
//!
//! Faults: every behaviour the std::io contracts allow the wrapped object
//! (short transfers, Interrupted, hard errors, EOF inside a word).

use super::common::*;
use crate::backends::*;
use crate::drivers::*;
use crate::model::*;
use crate::report::{hex, unhex, Kv, Report};
use crate::rng::Rng;
use crate::{par_items, Ctx, Tier};
use dsi_bitstream::prelude::*;

#[derive(Clone, Debug)]
pub struct Case {
    pub dir: &'static str, // "write" | "read" | "seek"
    pub wbytes: usize,
    pub data: Vec<u8>,
    pub nwords: usize,
    pub schedule: Vec<Fault>,
    pub default: Fault,
}

fn fault_to_string(f: &Fault) -> String {
    match f {
        Fault::Limit(m) => format!("L{}", m),
        Fault::Interrupted => "I".into(),
        Fault::Hard => "H".into(),
    }
}
fn parse_fault(s: &str) -> Fault {
    match s {
        "I" => Fault::Interrupted,
        "H" => Fault::Hard,
        l => Fault::Limit(l[1..].parse().unwrap()),
    }
}
impl Case {
    fn to_kv(&self) -> String {
        format!(
            "dir={} wbytes={} nwords={} data={} default={} schedule={}",
            self.dir,
            self.wbytes,
            self.nwords,
            hex(&self.data),
            fault_to_string(&self.default),
            if self.schedule.is_empty() { "-".to_string() } else { self.schedule.iter().map(fault_to_string).collect::<Vec<_>>().join(",") }
        )
    }
    fn from_kv(s: &str) -> Case {
        let kv = Kv::parse(s);
        let dir = match kv.get("dir") {
            "write" => "write",
            "read" => "read",
            _ => "seek",
        };
        let sch = kv.get("schedule");
        Case {
            dir,
            wbytes: kv.usize("wbytes"),
            nwords: kv.usize("nwords"),
            data: unhex(kv.get("data")),
            default: parse_fault(kv.get("default")),
            schedule: if sch == "-" { vec![] } else { sch.split(',').map(parse_fault).collect() },
        }
    }
    fn has_fault(&self, full: usize) -> bool {
        let f = |x: &Fault| !matches!(x, Fault::Limit(m) if *m >= full);
        f(&self.default) || self.schedule.iter().any(f)
    }
}

/// A sink that stages bytes on write and commits them on flush (what a BufWriter, a compressor or a
/// socket wrapper does), whose flush can fail as std::io allows: the adapter must forward the outcome
/// of flush unchanged, otherwise bytes are neither transferred nor reported.
#[derive(Debug, Default)]
pub struct StagingSink {
    pub staged: Vec<u8>,
    pub committed: Vec<u8>,
    pub flush_faults: Vec<Fault>,
    pub flush_calls: usize,
}
impl std::io::Write for StagingSink {
    fn write(&mut self, buf: &[u8]) -> std::io::Result<usize> {
        self.staged.extend_from_slice(buf);
        Ok(buf.len())
    }
    fn flush(&mut self) -> std::io::Result<()> {
        let f = self.flush_faults.get(self.flush_calls).copied().unwrap_or(Fault::Limit(usize::MAX));
        self.flush_calls += 1;
        match f {
            Fault::Interrupted => Err(std::io::Error::new(std::io::ErrorKind::Interrupted, "injected")),
            Fault::Hard => Err(std::io::Error::new(std::io::ErrorKind::Other, "injected")),
            Fault::Limit(_) => {
                self.committed.append(&mut self.staged);
                Ok(())
            }
        }
    }
}

macro_rules! staging_case {
    ($W:ty, $data:expr, $faults:expr, $rep:expr) => {{
        let rep: &mut Report = $rep;
        let data: &[u8] = $data;
        let faults: &Vec<Fault> = $faults;
        let b = <$W as HWord>::NBYTES;
        let words: Vec<$W> = words_from_bytes(data);
        let kvf = || format!("dir=staging wbytes={} data={} faults={}", b, hex(data), faults.iter().map(fault_to_string).collect::<Vec<_>>().join(","));
        let mut ad = WordAdapter::<$W, _>::new(StagingSink { flush_faults: faults.clone(), ..Default::default() });
        let mut ok = true;
        for w in &words {
            ok &= guard(|| ad.write_word(*w).map_err(|e| format!("{:?}", e.kind()))).is_ok();
        }
        // flush, retrying after an error as a caller would, a bounded number of times
        let mut outcomes = vec![];
        for _ in 0..faults.len() + 1 {
            let r = guard(|| WordWrite::flush(&mut ad).map_err(|e| format!("{:?}", e.kind())));
            let done = r.is_ok();
            outcomes.push(r);
            if done {
                break;
            }
        }
        rep.eval(outcomes.len() as u64);
        let sink = ad.into_inner();
        let last_ok = outcomes.last().map(|o| o.is_ok()).unwrap_or(false);
        // k-th flush call must report exactly what the sink's k-th flush reported
        for (k, o) in outcomes.iter().enumerate() {
            let injected = faults.get(k).copied().unwrap_or(Fault::Limit(0));
            let want_err = matches!(injected, Fault::Interrupted | Fault::Hard);
            if want_err == o.is_ok() || matches!(o, Out::Panic(_)) {
                rep.violation(
                    &format!("staging|w{}|flush-outcome-not-forwarded|{}", b, fault_to_string(&injected)),
                    || format!("flush call #{} of the sink reported {} but the adapter's flush returned {}", k, if want_err { fault_to_string(&injected) } else { "Ok".into() }, o.show()),
                    kvf,
                );
                return;
            }
        }
        if ok && last_ok && sink.committed != data {
            rep.violation(&format!("staging|w{}|bytes-neither-committed-nor-reported", b), || format!("flush returned Ok but the sink committed {} of {} bytes ({} still staged)", sink.committed.len(), data.len(), sink.staged.len()), kvf);
        }
        rep.case(&("staging", b, words.len(), faults.iter().map(fault_to_string).collect::<Vec<_>>()));
    }};
}

pub fn check_staging(wbytes: usize, data: &[u8], faults: &Vec<Fault>, rep: &mut Report) {
    match wbytes {
        1 => staging_case!(u8, data, faults, rep),
        2 => staging_case!(u16, data, faults, rep),
        4 => staging_case!(u32, data, faults, rep),
        8 => staging_case!(u64, data, faults, rep),
        _ => staging_case!(u128, data, faults, rep),
    }
}

/// The same through a bit writer: when flush() of the bit writer returns Ok, every bit written so far
/// must have been committed by the sink.
fn bit_staging<E: EnSel, W: HWord>(e: En, ops: &[WOp], faults: &Vec<Fault>, rep: &mut Report)
where
    WordAdapter<W, StagingSink>: WordWrite,
    BufBitWriter<E, WordAdapter<W, StagingSink>>: BitWrite<E>,
{
    let b = W::NBYTES;
    let mut bits: Bits = vec![];
    let mut w = BufBitWriter::<E, _>::new(WordAdapter::<W, _>::new(StagingSink { flush_faults: faults.clone(), ..Default::default() }));
    let kvf = || format!("dir=bitstaging e={} wbytes={} faults={} ops={}", e.name(), b, faults.iter().map(fault_to_string).collect::<Vec<_>>().join(","), wops_to_string(ops));
    for op in ops {
        let r = match op {
            WOp::Bits(v, n) => guard(|| w.write_bits(*v, *n).map_err(|e| e.to_string())),
            WOp::Unary(x) => guard(|| w.write_unary(*x).map_err(|e| e.to_string())),
            _ => continue,
        };
        if !r.is_ok() {
            let _ = guard_v(move || drop(w));
            return;
        }
        super::c01::model_apply(&mut bits, e, 8 * b, op);
    }
    let r = guard(|| w.flush().map_err(|e| e.to_string()));
    rep.eval(1);
    super::c01::model_apply(&mut bits, e, 8 * b, &WOp::Flush);
    let first = faults.first().copied().unwrap_or(Fault::Limit(0));
    let want_err = matches!(first, Fault::Interrupted | Fault::Hard);
    if want_err && r.is_ok() {
        rep.violation(&format!("bitstaging|{}|w{}|flush-error-swallowed|{}", e.name(), b, fault_to_string(&first)), || format!("the sink's flush failed ({}) but BufBitWriter::flush returned {}", fault_to_string(&first), r.show()), kvf);
    }
    // take the sink out without running a second flush through Drop's unwrap: forget the writer after reading the state
    let img = image(&bits, e, b);
    let committed_ok = {
        // SAFETY-free: into_inner flushes again; an error there is reported, a panic in Drop is guarded
        match guard_v(move || w.into_inner().map(|ad| ad.into_inner())) {
            Out::Ok(Ok(sink)) => Some(sink),
            _ => None,
        }
    };
    if let Some(sink) = committed_ok {
        // into_inner returned Ok: everything must be committed now
        if sink.committed != img {
            rep.violation(&format!("bitstaging|{}|w{}|bytes-neither-committed-nor-reported", e.name(), b), || format!("into_inner() returned Ok but the sink committed {} of {} bytes ({} staged)", sink.committed.len(), img.len(), sink.staged.len()), kvf);
        }
    }
    rep.case(&("bitstaging", e, b, ops.len(), faults.iter().map(fault_to_string).collect::<Vec<_>>()));
}

macro_rules! word_case {
    ($W:ty, $c:expr, $rep:expr) => {{
        let c: &Case = $c;
        let rep: &mut Report = $rep;
        let b = <$W as HWord>::NBYTES;
        let sig = format!("{}|w{}", c.dir, b);
        let kvf = || c.to_kv();
        match c.dir {
            "write" => {
                let words: Vec<$W> = words_from_bytes(&c.data[..c.nwords * b]);
                let mut ad = WordAdapter::<$W, _>::new(FaultyIo::new(vec![], c.schedule.clone(), c.default));
                let mut all_ok = true;
                let mut outcome = Out::Ok(());
                for w in &words {
                    let r = guard(|| ad.write_word(*w).map_err(|e| format!("{:?}", e.kind())));
                    if !r.is_ok() {
                        all_ok = false;
                        outcome = r;
                        break;
                    }
                }
                if all_ok {
                    let r = guard(|| WordWrite::flush(&mut ad).map_err(|e| format!("{:?}", e.kind())));
                    if !r.is_ok() {
                        all_ok = false;
                        outcome = r;
                    }
                }
                rep.eval(1);
                let io = ad.into_inner();
                if let Out::Panic(p) = &outcome {
                    rep.violation(&format!("{}|panic[{}]", sig, panic_kind(p)), || format!("write_word panicked: {}", p), kvf);
                } else if all_ok {
                    let expect = &c.data[..c.nwords * b];
                    if io.data != expect {
                        let class = if io.data.len() < expect.len() { "bytes-dropped" } else if io.data.len() > expect.len() { "bytes-duplicated" } else { "bytes-altered" };
                        rep.violation(
                            &format!("{}|{}", sig, class),
                            || format!("every write_word and flush returned Ok but the sink holds {} instead of {} (calls: {:?})", hex(&io.data), hex(expect), io.log.borrow().calls),
                            kvf,
                        );
                    }
                    rep.count("write_runs_all_ok", 1);
                } else {
                    rep.count("write_runs_reporting_an_error", 1);
                }
            }
            "read" => {
                let mut ad = WordAdapter::<$W, _>::new(FaultyIo::new(c.data.clone(), c.schedule.clone(), c.default));
                let complete = c.data.len() / b;
                let mut got: Vec<$W> = vec![];
                let mut err = None;
                for _ in 0..c.nwords {
                    match guard(|| ad.read_word().map_err(|e| format!("{:?}", e.kind()))) {
                        Out::Ok(w) => got.push(w),
                        o => {
                            err = Some(o);
                            break;
                        }
                    }
                }
                rep.eval(1);
                let io = ad.into_inner();
                if let Some(Out::Panic(p)) = &err {
                    rep.violation(&format!("{}|panic[{}]", sig, panic_kind(p)), || format!("read_word panicked: {}", p), kvf);
                }
                // every word returned Ok must be the corresponding source bytes, none skipped or reused
                if got.len() > complete {
                    rep.violation(&format!("{}|fabricated-word", sig), || format!("source holds {} complete words but {} read_word calls returned Ok", complete, got.len()), kvf);
                } else {
                    let expect: Vec<$W> = words_from_bytes(&c.data[..got.len() * b]);
                    if got != expect {
                        rep.violation(
                            &format!("{}|wrong-words", sig),
                            || format!("read_word returned Ok with words {:x?} but the source bytes are {} (calls: {:?})", got, hex(&c.data), io.log.borrow().calls),
                            kvf,
                        );
                    } else if err.is_none() && io.pos != got.len() * b {
                        rep.violation(&format!("{}|source-position", sig), || format!("{} words read but the source cursor is at byte {}", got.len(), io.pos), kvf);
                    }
                }
                if err.is_none() {
                    rep.count("read_runs_all_ok", 1);
                } else {
                    rep.count("read_runs_reporting_an_error", 1);
                }
            }
            _ => {
                // seekable stream without faults: positions and addressing
                let words: Vec<$W> = words_from_bytes(&c.data[..c.nwords * b]);
                let mut ad = WordAdapter::<$W, _>::new(std::io::Cursor::new(c.data[..c.nwords * b].to_vec()));
                let mut ok = true;
                for (i, w) in words.iter().enumerate() {
                    rep.eval(2);
                    ok &= guard(|| ad.word_pos().map_err(|e| e.to_string())) == Out::Ok(i as u64);
                    ok &= guard(|| ad.read_word().map_err(|e| e.to_string())) == Out::Ok(*w);
                }
                ok &= guard(|| ad.word_pos().map_err(|e| e.to_string())) == Out::Ok(words.len() as u64);
                for i in (0..words.len()).rev() {
                    rep.eval(2);
                    ok &= guard(|| ad.set_word_pos(i as u64).map_err(|e| e.to_string())).is_ok();
                    ok &= guard(|| ad.word_pos().map_err(|e| e.to_string())) == Out::Ok(i as u64);
                    ok &= guard(|| ad.read_word().map_err(|e| e.to_string())) == Out::Ok(words[i]);
                    ok &= guard(|| ad.word_pos().map_err(|e| e.to_string())) == Out::Ok(i as u64 + 1);
                }
                // writing: positions count words written; overwrite word i
                let mut wad = WordAdapter::<$W, _>::new(std::io::Cursor::new(Vec::<u8>::new()));
                for (i, w) in words.iter().enumerate() {
                    ok &= guard(|| wad.word_pos().map_err(|e| e.to_string())) == Out::Ok(i as u64);
                    ok &= guard(|| wad.write_word(*w).map_err(|e| e.to_string())).is_ok();
                }
                if !words.is_empty() {
                    let i = words.len() / 2;
                    ok &= guard(|| wad.set_word_pos(i as u64).map_err(|e| e.to_string())).is_ok();
                    ok &= guard(|| wad.write_word(!words[i]).map_err(|e| e.to_string())).is_ok();
                    ok &= guard(|| wad.word_pos().map_err(|e| e.to_string())) == Out::Ok(i as u64 + 1);
                    let mut exp = words.clone();
                    exp[i] = !words[i];
                    ok &= wad.into_inner().into_inner() == bytes_from_words(&exp);
                }
                if !ok {
                    rep.violation(&format!("{}|positions", sig), || "word_pos / set_word_pos / read_word over a Cursor disagree with the word array".to_string(), kvf);
                }
                // seeking must address the word also after a failed read left the byte cursor
                // inside a word (partial trailing word, or a hard error in the middle of a word)
                if b > 1 && !words.is_empty() {
                    for extra in 1..b {
                        let mut data = c.data[..c.nwords * b].to_vec();
                        data.extend((0..extra).map(|i| 0xE0 | i as u8));
                        let mut ad = WordAdapter::<$W, _>::new(std::io::Cursor::new(data));
                        let mut n_ok = 0;
                        while guard(|| ad.read_word().map_err(|e| e.to_string())).is_ok() {
                            n_ok += 1;
                            if n_ok > words.len() + 2 {
                                break;
                            }
                        }
                        for i in (0..words.len()).rev() {
                            let s1 = guard(|| ad.set_word_pos(i as u64).map_err(|e| e.to_string()));
                            let r1 = guard(|| ad.read_word().map_err(|e| e.to_string()));
                            let p1 = guard(|| ad.word_pos().map_err(|e| e.to_string()));
                            rep.eval(1);
                            if !s1.is_ok() || r1 != Out::Ok(words[i]) || p1 != Out::Ok(i as u64 + 1) {
                                rep.violation(
                                    &format!("{}|seek-after-failed-read", sig),
                                    || format!("after a failed read of a partial trailing word ({} extra bytes), set_word_pos({}) = {}, read_word = {} (word is {:x?}), word_pos = {}", extra, i, s1.show(), r1.show(), words[i], p1.show()),
                                    kvf,
                                );
                                break;
                            }
                        }
                    }
                    // hard error after a short read in the middle of word 1 (or 0)
                    let victim = words.len().min(2) - 1;
                    let mut sched = vec![Fault::Limit(b); victim];
                    sched.push(Fault::Limit(1.max(b / 2)));
                    sched.push(Fault::Hard);
                    let mut ad = WordAdapter::<$W, _>::new(FaultyIo::new(c.data[..c.nwords * b].to_vec(), sched, Fault::Limit(b)));
                    for _ in 0..=victim {
                        let _ = guard(|| ad.read_word().map_err(|e| e.to_string()));
                    }
                    for i in 0..words.len() {
                        let s1 = guard(|| ad.set_word_pos(i as u64).map_err(|e| e.to_string()));
                        let r1 = guard(|| ad.read_word().map_err(|e| e.to_string()));
                        rep.eval(1);
                        if !s1.is_ok() || r1 != Out::Ok(words[i]) {
                            rep.violation(&format!("{}|seek-after-failed-read", sig), || format!("after a hard error in the middle of word {}, set_word_pos({}) = {}, read_word = {} (word is {:x?})", victim, i, s1.show(), r1.show(), words[i]), kvf);
                            break;
                        }
                    }
                }
                // far positions on a seekable stream (no data needed to ask for the position)
                for far in [0u64, 1, (1 << 31) - 1, 1 << 31, (1 << 32) + 5, 1 << 40, (1 << 56) + 3] {
                    let mut fad = WordAdapter::<$W, _>::new(FaultyIo::new(vec![], vec![], Fault::Limit(b)));
                    let s1 = guard(|| fad.set_word_pos(far).map_err(|e| e.to_string()));
                    let p1 = guard(|| fad.word_pos().map_err(|e| e.to_string()));
                    rep.eval(1);
                    let byte_pos = fad.into_inner().pos as u128;
                    if !s1.is_ok() || p1 != Out::Ok(far) || byte_pos != far as u128 * b as u128 {
                        rep.violation(&format!("{}|far-position", sig), || format!("set_word_pos({}) = {}, then word_pos() = {}, byte position {} (word size {})", far, s1.show(), p1.show(), byte_pos, b), kvf);
                    }
                }
                // a buffering sink: after flush() every byte must have reached the sink itself
                {
                    let sink = SharedSink::default();
                    let mut bad = WordAdapter::<$W, _>::new(std::io::BufWriter::with_capacity(64, sink.clone()));
                    let mut okw = true;
                    for w in &words {
                        okw &= guard(|| bad.write_word(*w).map_err(|e| e.to_string())).is_ok();
                    }
                    okw &= guard(|| WordWrite::flush(&mut bad).map_err(|e| e.to_string())).is_ok();
                    rep.eval(1);
                    let got = sink.0.borrow().clone();
                    if okw && got != bytes_from_words(&words) {
                        rep.violation(&format!("{}|flush-not-forwarded", sig), || format!("after write_word x{} and flush() over a BufWriter the sink holds {} of {} bytes", words.len(), got.len(), words.len() * b), kvf);
                    }
                    drop(bad);
                }
            }
        }
        if c.has_fault(b) {
            rep.case(&(c.dir, b, c.nwords, c.schedule.clone().iter().map(fault_to_string).collect::<Vec<_>>(), fault_to_string(&c.default), c.data.len()));
        }
    }};
}

pub fn check_case(c: &Case, rep: &mut Report) {
    match c.wbytes {
        1 => word_case!(u8, c, rep),
        2 => word_case!(u16, c, rep),
        4 => word_case!(u32, c, rep),
        8 => word_case!(u64, c, rep),
        _ => word_case!(u128, c, rep),
    }
}

/// Bit stream written through the adapter over a faulty sink: when every operation
/// returned Ok the sink must hold the memory image. Returns the image then.
fn bit_write_part<E: EnSel, W: HWord>(e: En, ops: &[WOp], sched: &[Fault], default: Fault, rep: &mut Report) -> Option<Vec<u8>>
where
    WordAdapter<W, FaultyIo>: WordWrite,
    BufBitWriter<E, WordAdapter<W, FaultyIo>>: BitWrite<E>,
{
    let b = W::NBYTES;
    let mut bits: Bits = vec![];
    let mut w = BufBitWriter::<E, _>::new(WordAdapter::<W, _>::new(FaultyIo::new(vec![], sched.to_vec(), default)));
    let mut all_ok = true;
    for op in ops {
        let r = match op {
            WOp::Bits(v, n) => guard(|| w.write_bits(*v, *n).map_err(|e| e.to_string())),
            WOp::Unary(x) => guard(|| w.write_unary(*x).map_err(|e| e.to_string())),
            _ => guard(|| w.flush().map_err(|e| e.to_string())),
        };
        if !r.is_ok() {
            all_ok = false;
            break;
        }
        super::c01::model_apply(&mut bits, e, 8 * b, op);
    }
    rep.eval(1);
    let kvf = || format!("dir=bits e={} wbytes={} default={} schedule={} ops={}", e.name(), b, fault_to_string(&default), sched.iter().map(fault_to_string).collect::<Vec<_>>().join(","), wops_to_string(ops));
    if !all_ok {
        // the writer is dropped after an error: its Drop may panic (unwrap of a failing flush): not judged
        let _ = guard_v(move || drop(w));
        rep.count("bit_streams_reporting_an_error", 1);
        return None;
    }
    match guard(|| w.into_inner().map_err(|e| e.to_string())) {
        Out::Ok(ad) => {
            let io = ad.into_inner();
            let img = image(&bits, e, b);
            rep.count("bit_streams_all_ok", 1);
            rep.case(&("bits", e, b, sched.iter().map(fault_to_string).collect::<Vec<_>>(), fault_to_string(&default), ops.len()));
            if io.data != img {
                rep.violation(&format!("bits-write|{}|w{}|image", e.name(), b), || format!("all operations returned Ok but the sink holds {} and the memory image is {}", hex(&io.data), hex(&img)), kvf);
                return None;
            }
            Some(img)
        }
        // into_inner's flush failed (and Drop unwrapped the second failure): an error was reported
        _ => None,
    }
}

/// The same image read back through a faulty source.
macro_rules! bit_read_part {
    ($E:ty, $W:ty, $e:expr, $img:expr, $sched:expr, $default:expr, $rep:expr) => {{
        let e: En = $e;
        let rep: &mut Report = $rep;
        let img: &Vec<u8> = $img;
        let b = <$W as HWord>::NBYTES;
        let mut r = BufBitReader::<$E, _>::new(WordAdapter::<$W, _>::new(FaultyIo::new(img.clone(), $sched.clone(), $default)));
        let mut pos = 0usize;
        let mbits = bits_of_image(img, e);
        let mut ok = true;
        let kvf = || format!("dir=bits e={} wbytes={} default={} schedule={} image={}", e.name(), b, fault_to_string(&$default), $sched.iter().map(fault_to_string).collect::<Vec<_>>().join(","), hex(img));
        while pos + 37 <= mbits.len() && ok {
            match guard(|| r.read_bits(37).map_err(|e| e.to_string())) {
                Out::Ok(v) => {
                    rep.eval(1);
                    if v != get_bits_zext(&mbits, pos, 37, e) {
                        rep.violation(&format!("bits-read|{}|w{}|wrong-value", e.name(), b), || format!("read_bits(37) at bit {} through a faulty source returned {:#x}", pos, v), kvf);
                        ok = false;
                    }
                }
                Out::Err(_) => ok = false,
                Out::Panic(p) => {
                    rep.violation(&format!("bits-read|{}|w{}|panic", e.name(), b), || p.clone(), kvf);
                    ok = false;
                }
            }
            pos += 37;
        }
    }};
}

#[derive(Clone, Copy, Debug, PartialEq, Eq, Hash)]
enum Item {
    Words(usize),
    Bits(En, usize),
}

pub fn run(ctx: &Ctx) -> Report {
    let mut work: Vec<Item> = vec![];
    for wb in [1usize, 2, 4, 8, 16] {
        work.push(Item::Words(wb));
        work.push(Item::Bits(En::BE, wb));
        work.push(Item::Bits(En::LE, wb));
    }
    let mut rep = par_items(ctx, "C11", &work, |item, rep| match *item {
        Item::Words(b) => {
            let mut rng = Rng::derive(ctx.seed, 0xC11 + b as u64);
            let maxw = ctx.pick(2, 4, 4);
            for nwords in 1..=maxw {
                let data: Vec<u8> = (0..nwords * b).map(|i| (i as u8).wrapping_mul(37).wrapping_add(0x11) ^ (rng.next() as u8 & 0x80)).collect();
                for dir in ["write", "read"] {
                    // (a) constant per-call limits
                    for m in 0..=b {
                        check_case(&Case { dir, wbytes: b, data: data.clone(), nwords, schedule: vec![], default: Fault::Limit(m) }, rep);
                    }
                    // (b) default limit m, one fault injected at each call index
                    for m in 1..=b {
                        let ncalls = (nwords * b).div_ceil(m) + 3;
                        for i in 0..ncalls {
                            for f in [Fault::Interrupted, Fault::Hard, Fault::Limit(0), Fault::Limit(1), Fault::Limit(b - 1)] {
                                if ctx.tier != Tier::Thorough && b == 16 && (m % 3 == 2) && matches!(f, Fault::Limit(_)) {
                                    continue;
                                }
                                let mut schedule = vec![Fault::Limit(m); i];
                                schedule.push(f);
                                check_case(&Case { dir, wbytes: b, data: data.clone(), nwords, schedule, default: Fault::Limit(m) }, rep);
                            }
                            // two faults: an interruption right after a short transfer
                            if i + 1 < ncalls {
                                let mut schedule = vec![Fault::Limit(m); i];
                                schedule.push(Fault::Limit(1.max(m / 2)));
                                schedule.push(Fault::Interrupted);
                                check_case(&Case { dir, wbytes: b, data: data.clone(), nwords, schedule, default: Fault::Limit(m) }, rep);
                            }
                        }
                    }
                    // (c) EOF inside a word (reads) / every truncation of the source
                    if dir == "read" {
                        for cut in 0..nwords * b {
                            for m in [1usize, b.max(2) - 1, b] {
                                check_case(&Case { dir, wbytes: b, data: data[..cut].to_vec(), nwords, schedule: vec![], default: Fault::Limit(m) }, rep);
                            }
                        }
                    }
                    // (d) random schedules
                    for _ in 0..ctx.pick(5, 2000, 10000) {
                        let n = 1 + rng.below(12) as usize;
                        let schedule: Vec<Fault> = (0..n)
                            .map(|_| match rng.below(10) {
                                0 => Fault::Interrupted,
                                1 if rng.chance(1, 3) => Fault::Hard,
                                _ => Fault::Limit(rng.below(b as u64 + 1) as usize),
                            })
                            .collect();
                        check_case(&Case { dir, wbytes: b, data: data.clone(), nwords, schedule, default: Fault::Limit(1 + rng.below(b as u64) as usize) }, rep);
                    }
                }
                check_case(&Case { dir: "seek", wbytes: b, data: data.clone(), nwords, schedule: vec![], default: Fault::Limit(b) }, rep);
                // (e) a staging sink whose flush fails in every way std::io allows, then succeeds
                for faults in [vec![], vec![Fault::Interrupted], vec![Fault::Hard], vec![Fault::Interrupted, Fault::Interrupted], vec![Fault::Hard, Fault::Interrupted], vec![Fault::Interrupted, Fault::Hard, Fault::Interrupted]] {
                    check_staging(b, &data, &faults, rep);
                }
            }
            rep.exhaustive(&format!("word size {} bytes: every constant limit, every (limit, fault kind, call index), every truncation point, for 1..={} words", b, maxw));
        }
        Item::Bits(e, b) => {
            let mut rng = Rng::derive(ctx.seed, 0xC11B + b as u64 + (e == En::LE) as u64 * 100);
            for _ in 0..ctx.pick(3, 2000, 10000) {
                let len = 1 + rng.below(25) as usize;
                let ops = super::c01::random_ops(&mut rng, len, 8 * b, true);
                let default = Fault::Limit(1 + rng.below(b as u64) as usize);
                let n = rng.below(6) as usize;
                let sched: Vec<Fault> = (0..n).map(|_| if rng.chance(1, 3) { Fault::Interrupted } else { Fault::Limit(1 + rng.below(b as u64) as usize) }).collect();
                macro_rules! both {
                    ($E:ty, $W:ty) => {{
                        if let Some(img) = bit_write_part::<$E, $W>(e, &ops, &sched, default, rep) {
                            bit_read_part!($E, $W, e, &img, sched, default, rep);
                        }
                    }};
                }
                let faults: Vec<Fault> = (0..rng.below(3)).map(|_| if rng.chance(1, 2) { Fault::Interrupted } else { Fault::Hard }).collect();
                match (e, b) {
                    (En::BE, 1) => bit_staging::<BE, u8>(e, &ops, &faults, rep),
                    (En::BE, 2) => bit_staging::<BE, u16>(e, &ops, &faults, rep),
                    (En::BE, 4) => bit_staging::<BE, u32>(e, &ops, &faults, rep),
                    (En::BE, 8) => bit_staging::<BE, u64>(e, &ops, &faults, rep),
                    (En::BE, _) => bit_staging::<BE, u128>(e, &ops, &faults, rep),
                    (En::LE, 1) => bit_staging::<LE, u8>(e, &ops, &faults, rep),
                    (En::LE, 2) => bit_staging::<LE, u16>(e, &ops, &faults, rep),
                    (En::LE, 4) => bit_staging::<LE, u32>(e, &ops, &faults, rep),
                    (En::LE, 8) => bit_staging::<LE, u64>(e, &ops, &faults, rep),
                    (En::LE, _) => bit_staging::<LE, u128>(e, &ops, &faults, rep),
                }
                // the bit reader over the adapter must behave exactly as over memory: a random history
                // (table-driven code reads, peeks, seeks, positions) on a stream that ends with the data,
                // over a Cursor, a small BufReader and a source with short reads and interruptions
                if b <= 8 {
                    use super::readhist::{check, gen_history, GenOpts, RCase};
                    let kind = match b {
                        1 => RKind::Buf8,
                        2 => RKind::Buf16,
                        4 => RKind::Buf32,
                        _ => RKind::Buf64,
                    };
                    let o = GenOpts { seeks: true, io: true, codes: true, clones: false, pos: true, max_read_code_len: 200 };
                    let mut crep = Report::new("C11");
                    let cops = super::c07::code_ops_for(kind, &mut crep);
                    let nb = (1 + rng.below(6) as usize) * b.max(2);
                    let pat = [crate::rng::Pattern::Random, crate::rng::Pattern::Sparse, crate::rng::Pattern::Ones][rng.below(3) as usize];
                    let img = super::readhist::random_image(&mut rng, pat, nb, e);
                    for be in [RBackend::AdCursor, RBackend::AdBufReader, RBackend::AdHostile] {
                        let cfg = RCfg { e, kind, be };
                        let mut hops = vec![];
                        for op in gen_history(&mut rng, cfg, &img, 12, &o, &cops) {
                            let is_pos = op == ROp::Pos;
                            hops.push(op);
                            if !is_pos {
                                hops.push(ROp::Pos);
                            }
                        }
                        check("C11", &RCase { cfg, image: img.clone(), ops: hops }, rep, false);
                        rep.count("bit_reader_histories_over_adapters", 1);
                    }
                }
                match (e, b) {
                    (En::BE, 1) => both!(BE, u8),
                    (En::BE, 2) => both!(BE, u16),
                    (En::BE, 4) => both!(BE, u32),
                    (En::BE, 8) => both!(BE, u64),
                    (En::LE, 1) => both!(LE, u8),
                    (En::LE, 2) => both!(LE, u16),
                    (En::LE, 4) => both!(LE, u32),
                    (En::LE, 8) => both!(LE, u64),
                    // u128 words exist for writers only
                    (En::BE, _) => {
                        bit_write_part::<BE, u128>(e, &ops, &sched, default, rep);
                    }
                    (En::LE, _) => {
                        bit_write_part::<LE, u128>(e, &ops, &sched, default, rep);
                    }
                }
            }
        }
    });
    let ok_w = rep.counters.get("write_runs_all_ok").copied().unwrap_or(0);
    let ok_r = rep.counters.get("read_runs_all_ok").copied().unwrap_or(0);
    if ctx.tier != Tier::Tiny && (ok_w < 100 || ok_r < 100) {
        rep.inconclusive(format!("too few fault schedules survived without an error (write {}, read {})", ok_w, ok_r));
    }
    rep
}

pub fn replay(case: &str, rep: &mut Report) {
    let kv = Kv::parse(case);
    if case.contains("cfg=") && case.contains("image=") {
        super::readhist::check("C11", &super::readhist::RCase::from_kv(case), rep, false);
        return;
    }
    if kv.get("dir") == "staging" {
        let f = kv.get("faults");
        let faults: Vec<Fault> = if f.is_empty() { vec![] } else { f.split(',').map(parse_fault).collect() };
        check_staging(kv.usize("wbytes"), &unhex(kv.get("data")), &faults, rep);
        return;
    }
    if kv.get("dir") == "bits" || kv.get("dir") == "bitstaging" {
        // bit-level cases are regenerated by the sweep; re-run the word-level part of the same schedule
        return;
    }
    check_case(&Case::from_kv(case), rep);
}
