//! C06 — length functions equal bits written equal bits consumed.

use super::codes::*;
use super::common::*;
use crate::drivers::*;
use crate::model::*;
use crate::report::{Kv, Report};
use crate::rng::Rng;
use crate::{par_items, Ctx, Tier};

fn check_value(e: En, code: Code, v: u64, ci: usize, _ctx_seed: u64, lm: u128, rep: &mut Report, materialise: bool) {
    let mlen = code_len(code, v);
    let kvf = || format!("e={} code={} value={}", e.name(), codeop_to_string(&CodeOp::Std(code)), v);
    // (a) every library length function vs the model closed form
    for (name, got) in lib_lens(code, v) {
        rep.eval(1);
        // a length that does not fit usize cannot be returned: only unary-prefixed codes with
        // astronomically long codewords, where the library documents no result
        if mlen > usize::MAX as u128 {
            continue;
        }
        match got {
            Out::Ok(l) if l as u128 == mlen => {}
            o => rep.violation(
                &format!("{}|{}|{}", code.family(), name.split('<').next().unwrap_or(&name), if o.is_ok() { "wrong-length".to_string() } else { o.class() }),
                || format!("{}({}) for {} = {} but the codeword has {} bits", name, v, code.name(), o.show(), mlen),
                kvf,
            ),
        }
    }
    rep.case(&(code, v));
    if !materialise || mlen > lm {
        return;
    }
    // the byte-stream functions of the VByte codes return a length too: it must be the length function's
    // value whatever the std::io sink does (short writes, interruptions), or an error
    if matches!(code, Code::VByteBe) && e == En::BE {
        super::c18::check_hostile_io(v, ci, rep);
    }
    // (b) write return value, growth of the stream in bits, bits consumed by the read
    let wms = write_methods(code);
    for (mi, wop) in wms.iter().enumerate() {
        let ww = WWord::ALL[(ci + mi) % 5];
        let mut h = make_writer(WCfg { e, w: ww, be: WBackend::Rec(None) });
        let pre = (ci * 13 + mi * 5) % (2 * ww.bits());
        let mut left = pre;
        while left > 0 {
            let n = left.min(64);
            let _ = guard(|| h.w.write_bits(0x5555_5555_5555_5555 & if n == 64 { u64::MAX } else { (1 << n) - 1 }, n));
            left -= n;
        }
        let ret = guard(|| h.w.write_code(*wop, v));
        let pending = guard(|| h.w.flush());
        let delivered = h.w.delivered().unwrap_or_default();
        rep.eval(2);
        let sig = format!("{}|{}", code.family(), wop.name().split('(').next().unwrap_or(""));
        let total_bits = match pending {
            Out::Ok(0) => delivered.len() * 8,
            Out::Ok(p) => delivered.len() * 8 - ww.bits() + p,
            ref o => {
                rep.violation(&format!("{}|flush|{}", sig, o.class()), || o.show(), kvf);
                continue;
            }
        };
        let grown = total_bits as i128 - pre as i128;
        if ret != Out::Ok(mlen as usize) {
            rep.violation(
                &format!("{}|write-ret|{}", sig, if ret.is_ok() { "wrong-length".to_string() } else { ret.class() }),
                || format!("{} of {} ({} writer, {} bits before) returned {} but the model codeword has {} bits", wop.name(), v, ww.name(), pre, ret.show(), mlen),
                || format!("{} w={} wop={} pre={}", kvf(), ww.name(), codeop_to_string(wop), pre),
            );
        }
        if grown != mlen as i128 {
            rep.violation(
                &format!("{}|stream-growth", sig),
                || format!("{} of {} ({} writer) appended {} bits to the stream, length function/model say {}", wop.name(), v, ww.name(), grown, mlen),
                || format!("{} w={} wop={} pre={}", kvf(), ww.name(), codeop_to_string(wop), pre),
            );
        }
        // (c) bits consumed by reading it back
        let mut img = delivered.clone();
        img.resize((img.len() + 8).div_ceil(16) * 16, 0);
        let kind = RKind::ALL[(ci + mi) % 5];
        let rms = match read_methods(code, kind) {
            Ok(m) => m,
            Err(err) => {
                rep.inconclusive(format!("diagnostics probe: {}", err));
                return;
            }
        };
        let rop = rms[(ci + mi) % rms.len()];
        let be = [RBackend::MemZ, RBackend::MemS, RBackend::RecZ, RBackend::AdCursor][(ci + mi) % 4];
        let mut r = make_reader(RCfg { e, kind, be }, &img);
        let _ = guard(|| r.r.skip_bits(pre));
        let val = guard(|| r.r.read_code(rop));
        let p = guard(|| r.r.bit_pos().unwrap());
        rep.eval(1);
        let consumed = match p {
            Out::Ok(p) => p as i128 - pre as i128,
            _ => -1,
        };
        if val != Out::Ok(v) || consumed != mlen as i128 {
            rep.violation(
                &format!("{}|read-consumed|{}", code.family(), if val == Out::Ok(v) { "wrong-length".to_string() } else { format!("value-{}", val.class()) }),
                || format!("{} on {} read {} and consumed {} bits; written {} with {} bits", rop.name(), kind.name(), val.show(), consumed, v, mlen),
                || format!("{} w={} wop={} pre={} kind={} rop={}", kvf(), ww.name(), codeop_to_string(wop), pre, kind.name(), codeop_to_string(&rop)),
            );
        }
        // (d) the same read when the codeword is the very last thing of a strict stream (no padding
        // beyond the reader's word boundary): look-ahead past the end must not change what is consumed
        let rw = kind.word_bits();
        let need = pre + mlen as usize;
        let mut tight = delivered.clone();
        tight.resize(need.div_ceil(rw) * rw / 8, 0);
        let sbe = RBackend::STRICT[(ci / 3 + mi) % RBackend::STRICT.len()];
        let mut r = make_reader(RCfg { e, kind, be: sbe }, &tight);
        let _ = guard(|| r.r.skip_bits(pre));
        let val = guard(|| r.r.read_code(rop));
        let p = guard(|| r.r.bit_pos().unwrap());
        rep.eval(1);
        let consumed = match p {
            Out::Ok(p) => p as i128 - pre as i128,
            _ => -1,
        };
        if val != Out::Ok(v) || consumed != mlen as i128 {
            rep.violation(
                &format!("{}|read-consumed-at-tail|{}", code.family(), if val == Out::Ok(v) { "wrong-length".to_string() } else { format!("value-{}", val.class()) }),
                || format!("{} on {} over {} (stream ends with the codeword) read {} and consumed {} bits; written {} with {} bits", rop.name(), kind.name(), sbe.name(), val.show(), consumed, v, mlen),
                || format!("{} w={} wop={} pre={} kind={} rop={}", kvf(), ww.name(), codeop_to_string(wop), pre, kind.name(), codeop_to_string(&rop)),
            );
        }
    }
    if ci % 5003 == 0 {
        rep.sample(|| format!("{} {}: len {} = lib {:?}", code.name(), v, mlen, lib_lens(code, v).iter().map(|(n, o)| format!("{}={}", n, o.show())).collect::<Vec<_>>()));
    }
}

pub fn run(ctx: &Ctx) -> Report {
    let codes = code_grid(ctx.tier == Tier::Thorough);
    let codes: Vec<Code> = if ctx.tier == Tier::Tiny { vec![Code::Gamma, Code::Delta, Code::Zeta(3), Code::Pi(2), Code::Golomb(7), Code::VByteBe] } else { codes };
    let mut work: Vec<(En, Code)> = vec![];
    for c in &codes {
        work.push((En::BE, *c));
        work.push((En::LE, *c));
    }
    par_items(ctx, "C06", &work, |&(e, code), rep| {
        let mut rng = Rng::derive(ctx.seed, crate::report::hash_of(&(0xC06u64, e, code)));
        let dense: u64 = ctx.pick(64, 1 << 12, 1 << 16);
        let lm = lmax(ctx.tier == Tier::Thorough).min(if matches!(code, Code::Unary | Code::Rice(_) | Code::Golomb(_)) { 3000 } else { u128::MAX });
        let mut values: Vec<u64> = (0..dense.min(code.max_value().saturating_add(1).max(1))).collect();
        let grid = value_grid(code, 0, &mut rng, ctx.pick(4, 2000, 20000));
        let ngrid = grid.len();
        values.extend(grid);
        for (ci, &v) in values.iter().enumerate() {
            if v > code.max_value() {
                continue;
            }
            // dense small values: lengths always, stream every 8th; grid values: always both
            let materialise = ci >= values.len() - ngrid || ci % ctx.pick(1, 8, 4) == 0;
            check_value(e, code, v, ci, ctx.seed, lm, rep, materialise);
        }
        if ctx.tier != Tier::Tiny {
            rep.exhaustive(&format!("{} {}: length functions for every value below {}", e.name(), code.name(), dense));
        }
    })
}

pub fn replay(case: &str, rep: &mut Report) {
    let kv = Kv::parse(case);
    let code = parse_codeop(kv.get("code")).code();
    check_value(parse_en(kv.get("e")), code, kv.u64("value"), kv.opt("ci").and_then(|s| s.parse().ok()).unwrap_or(0), 0, 1 << 16, rep, true);
    // all rotations of the materialised part
    for ci in 0..20 {
        check_value(parse_en(kv.get("e")), code, kv.u64("value"), ci, 0, 1 << 16, rep, true);
    }
}
