//! C19 — build options change no result; argument checking fires only on dirty arguments.
//!
//! Every build variant runs (1) a fixed clean-argument workload whose observable
//! results (bytes, values, lengths, positions, Ok/Err) are hashed per section — the
//! hashes must be identical in all builds — and (2) the argument-checking matrix:
//! with `checks`, write_bits(v, n) must panic exactly when v has a bit at or above n,
//! and no write issued by the library itself may trip the check.

use super::c02::fill_prefix;
use super::common::*;
use super::readhist::{gen_history, random_image, GenOpts};
use crate::drivers::*;
use crate::model::*;
use crate::report::{hash_of, hex, Kv, Report};
use crate::rng::{Pattern, Rng};
use crate::{par_items, Ctx, Tier};
use std::collections::BTreeMap;

pub const CHECKS: bool = cfg!(feature = "checks");
pub const NO_COPY_IMPLS: bool = cfg!(feature = "no_copy_impls");

#[derive(Default)]
pub struct Transcript {
    pub sections: BTreeMap<String, (u64, u64, Vec<String>)>,
    pub keep: usize,
}
impl Transcript {
    pub fn ev(&mut self, section: &str, text: String) {
        let keep = self.keep;
        let s = self.sections.entry(section.to_string()).or_insert((0x1234_5678, 0, vec![]));
        s.0 = hash_of(&(s.0, &text));
        s.1 += 1;
        if s.2.len() < keep {
            s.2.push(text);
        }
    }
}

fn show<T: std::fmt::Debug>(o: &Out<T>) -> String {
    match o {
        Out::Ok(v) => format!("Ok({:?})", v),
        Out::Err(_) => "Err".into(),
        // the panic text contains file/line, identical across builds of the same tree, but
        // messages differ between profiles (overflow vs assertion): keep the fact only
        Out::Panic(_) => "PANIC".into(),
    }
}

fn clean_ops(rng: &mut Rng, len: usize, wbits: usize) -> Vec<WOp> {
    let mut ops = vec![];
    let codes = [
        CodeOp::Std(Code::Gamma),
        CodeOp::GammaP(false),
        CodeOp::Std(Code::Delta),
        CodeOp::DeltaP(false, false),
        CodeOp::Std(Code::Omega),
        CodeOp::Std(Code::Zeta(3)),
        CodeOp::ZetaKP(5, true),
        CodeOp::Std(Code::Pi(2)),
        CodeOp::Std(Code::Rice(4)),
        CodeOp::Std(Code::Golomb(7)),
        CodeOp::Std(Code::ExpGolomb(3)),
        CodeOp::Std(Code::MinBin(1000)),
        CodeOp::Std(Code::VByteBe),
        CodeOp::Std(Code::VByteLe),
    ];
    for _ in 0..len {
        ops.push(match rng.below(100) {
            0..=34 => {
                let n = rng.below(65) as usize;
                let v = if n == 64 { rng.next() } else { rng.next() & ((1u64 << n) - 1) };
                WOp::Bits(v, n)
            }
            35..=49 => WOp::Unary(rng.below(3 * wbits as u64 + 2)),
            50..=54 => WOp::Flush,
            55..=59 => WOp::IoWrite((0..rng.below(20)).map(|_| rng.next() as u8).collect()),
            _ => {
                let c = *rng.pick(&codes);
                WOp::Code(c, rng.log_uniform_max(c.code().max_value()).min(if matches!(c.code(), Code::Rice(_) | Code::Golomb(_)) { 5000 } else { u64::MAX }))
            }
        });
    }
    ops
}

/// The fixed workload. Everything is derived from constants: it must not depend on the
/// seed of the run, only on the tree and the build.
pub fn transcript(keep: usize, scale: usize) -> Transcript {
    let mut t = Transcript { keep, ..Default::default() };
    let mut rng = Rng::new(0xC19);
    // ---- writers ----
    for e in En::BOTH {
        for w in WWord::ALL {
            let sec = format!("write/{}/{}", e.name(), w.name());
            for h in 0..12 * scale {
                let ops = clean_ops(&mut rng, 1 + h % 40, w.bits());
                let be = [WBackend::Rec(None), WBackend::VecOwned, WBackend::AdVec, WBackend::Slice(4096)][h % 4];
                let mut wr = make_writer(WCfg { e, w, be });
                for op in &ops {
                    let r = match op {
                        WOp::Bits(v, n) => guard(|| wr.w.write_bits(*v, *n)),
                        WOp::Unary(x) => guard(|| wr.w.write_unary(*x)),
                        WOp::Flush => guard(|| wr.w.flush()),
                        WOp::Code(c, v) => guard(|| wr.w.write_code(*c, *v)),
                        WOp::IoWrite(b) => guard(|| wr.w.io_write_all(b).unwrap().map(|_| b.len())),
                    };
                    t.ev(&sec, format!("{} -> {}", op.to_string(), show(&r)));
                }
                let bytes = guard(|| wr.w.into_bytes().unwrap());
                t.ev(&sec, format!("image {}", bytes.ok().map(|b| hex(&b)).unwrap_or("ERR".into())));
            }
        }
    }
    // ---- readers ----
    let o = GenOpts { seeks: true, io: true, codes: true, clones: true, pos: true, max_read_code_len: 200 };
    for e in En::BOTH {
        for kind in RKind::ALL {
            let sec = format!("read/{}/{}", e.name(), kind.name());
            // only table options that every build treats alike (the diagnostic set is a property of the tree)
            let cops: Vec<CodeOp> = vec![
                CodeOp::Std(Code::Gamma),
                CodeOp::GammaP(false),
                CodeOp::Std(Code::Delta),
                CodeOp::DeltaP(false, false),
                CodeOp::Zeta3Def,
                CodeOp::Zeta3P(false),
                CodeOp::Std(Code::Omega),
                CodeOp::Std(Code::Pi(3)),
                CodeOp::Std(Code::Rice(2)),
                CodeOp::Std(Code::Golomb(6)),
                CodeOp::Std(Code::ExpGolomb(1)),
                CodeOp::Std(Code::MinBin(77)),
                CodeOp::Std(Code::VByteBe),
                CodeOp::Std(Code::VByteLe),
            ];
            let cops: Vec<CodeOp> = if kind == RKind::Buf8 { cops } else { cops.into_iter().chain([CodeOp::GammaP(true), CodeOp::DeltaP(true, true), CodeOp::Zeta3P(true)].into_iter()).collect() };
            for h in 0..10 * scale {
                let pat = [Pattern::Random, Pattern::ZeroRuns, Pattern::Sparse, Pattern::Ones][h % 4];
                let wb = kind.word_bytes();
                let img = random_image(&mut rng, pat, ((16 + h % 70) / wb + 1) * wb, e);
                let be = RBackend::ALL[h % RBackend::ALL.len()];
                let cfg = RCfg { e, kind, be };
                let ops = gen_history(&mut rng, cfg, &img, 4 + h % 30, &o, &cops);
                let mut r = make_reader(cfg, &img);
                for op in &ops {
                    let s = match op {
                        ROp::Read(n) => show(&guard(|| r.r.read_bits(*n))),
                        ROp::Peek(n) => show(&guard(|| r.r.peek_bits(*n))),
                        ROp::Skip(n) => show(&guard(|| r.r.skip_bits(*n))),
                        ROp::Unary => show(&guard(|| r.r.read_unary())),
                        ROp::Code(c) => show(&guard(|| r.r.read_code(*c))),
                        ROp::Pos => show(&guard(|| r.r.bit_pos().unwrap())),
                        ROp::Seek(p) => show(&guard(|| r.r.set_bit_pos(*p).unwrap())),
                        ROp::IoRead(n) => show(&guard(|| r.r.io_read(*n).unwrap())),
                        ROp::PastEnd => show(&guard(|| r.r.read_bits(64))),
                        ROp::PeekSkip(k, n) => {
                            let a = show(&guard(|| r.r.peek_bits(*k)));
                            let _ = guard(|| {
                                r.r.skip_after_peek(*n);
                                Ok(())
                            });
                            a
                        }
                        ROp::CloneSwitch => {
                            if let Some(c) = r.r.try_clone() {
                                r.r = c;
                            }
                            "clone".into()
                        }
                    };
                    t.ev(&sec, format!("{} -> {}", op.to_string(), s));
                }
            }
        }
    }
    // ---- bulk copies: the three paths must be indistinguishable, with or without the optimised impls ----
    for e in En::BOTH {
        for kind in RKind::ALL {
            for ww in WWord::ALL {
                let sec = format!("copy/{}/{}/{}", e.name(), kind.name(), ww.name());
                let rw = kind.word_bits();
                let img = random_image(&mut rng, Pattern::Random, (2000 / 8 / (rw / 8) + 1) * (rw / 8), e);
                for h in 0..6 * scale {
                    let f = (h * 7 + 3) % (2 * rw);
                    let prefix = if kind.buffered() { fill_prefix(f, rw) } else { vec![ROp::Skip(f % 64)] };
                    let n = [0u64, 1, 7, 63, 64, 65, 70, 127, 128, 129, 200, 515][h % 12] + (h / 12) as u64;
                    for path in 0..3 {
                        let mut r = make_reader(RCfg { e, kind, be: RBackend::MemZ }, &img);
                        let mut w = make_writer(WCfg { e, w: ww, be: WBackend::Rec(None) });
                        for op in &prefix {
                            match op {
                                ROp::Read(k) => {
                                    let _ = guard(|| r.r.read_bits(*k));
                                }
                                ROp::Peek(k) => {
                                    let _ = guard(|| r.r.peek_bits(*k));
                                }
                                ROp::Skip(k) => {
                                    let _ = guard(|| r.r.skip_bits(*k));
                                }
                                _ => {}
                            }
                        }
                        let df = (h * 5) % ww.bits();
                        let mut left = df;
                        while left > 0 {
                            let m = left.min(64);
                            let _ = guard(|| w.w.write_bits(if m == 64 { 0x0123_4567_89ab_cdef } else { 0x0123_4567_89ab_cdef & ((1u64 << m) - 1) }, m));
                            left -= m;
                        }
                        let res = match path {
                            0 => guard(|| r.r.copy_to(w.w.as_mut(), n)),
                            1 => guard(|| w.w.copy_from(r.r.as_mut(), n)),
                            _ => guard(|| generic_copy(e, r.r.as_mut(), w.w.as_mut(), n, false)),
                        };
                        let pos = guard(|| r.r.bit_pos().unwrap());
                        let next = guard(|| r.r.read_bits(40));
                        let _ = guard(|| w.w.write_bits(5, 3));
                        let _ = guard(|| w.w.flush());
                        // the path is not part of the event text: all paths must give the same observations
                        t.ev(&sec, format!("fill {} dst {} n {} -> {} pos {} next {} image {}", f, df, n, show(&res), show(&pos), show(&next), hex(&w.w.delivered().unwrap_or_default())));
                    }
                }
            }
        }
    }
    // ---- every code x boundary value grid (incl. the top of the domain) x write method: bytes and read-back ----
    for e in En::BOTH {
        for (ci, code) in code_grid(false).into_iter().enumerate() {
            let sec = format!("codes/{}/{}", e.name(), code.family());
            let mut vrng = Rng::new(0xC19C + ci as u64);
            for (vi, v) in value_grid(code, 12, &mut vrng, 3).into_iter().enumerate() {
                if code_len(code, v) > 1200 {
                    continue;
                }
                for (mi, wop) in super::codes::write_methods(code).into_iter().enumerate() {
                    let ww = WWord::ALL[(ci + vi + mi) % 5];
                    let mut w = make_writer(WCfg { e, w: ww, be: WBackend::Rec(None) });
                    let pre = (vi * 5 + mi * 3) % 67;
                    let _ = guard(|| w.w.write_bits(0x2aaa_aaaa_aaaa_aaaa & ((1u64 << pre.min(63)) - 1), pre.min(63)));
                    let ret = guard(|| w.w.write_code(wop, v));
                    let _ = guard(|| w.w.write_bits(0x155, 9));
                    let _ = guard(|| w.w.flush());
                    let bytes = w.w.delivered().unwrap_or_default();
                    t.ev(&sec, format!("{} {} {} pre {} -> {} bytes {}", code.name(), v, wop.name(), pre.min(63), show(&ret), hex(&bytes)));
                    // read back with the standard method on a rotating reader kind
                    let kind = RKind::ALL[(ci + vi) % 5];
                    let mut img = bytes.clone();
                    img.resize(img.len().div_ceil(16) * 16 + 16, 0);
                    let mut r = make_reader(RCfg { e, kind, be: RBackend::MemZ }, &img);
                    let _ = guard(|| r.r.skip_bits(pre.min(63)));
                    let val = guard(|| r.r.read_code(CodeOp::Std(code)));
                    let pos = guard(|| r.r.bit_pos().unwrap());
                    t.ev(&sec, format!("  read on {} -> {} pos {}", kind.name(), show(&val), show(&pos)));
                }
            }
        }
    }
    // ---- counting wrappers: results, counters and positions, with bulk copies through the wrapper ----
    for e in En::BOTH {
        for w in [WWord::U64, WWord::U16] {
            let sec = format!("wrap-write/{}/{}", e.name(), w.name());
            let src_img = random_image(&mut rng, Pattern::Random, 1024, e);
            for h in 0..8 * scale {
                let mut wr = make_wrapped_writer(e, w, Wrap::Count);
                let mut src = make_reader(RCfg { e, kind: RKind::ALL[h % 5], be: RBackend::MemZ }, &src_img);
                let ops = clean_ops(&mut rng, 1 + h % 12, w.bits());
                for (i, op) in ops.iter().enumerate() {
                    let r = match op {
                        WOp::Bits(v, n) => guard(|| wr.w.write_bits(*v, *n)),
                        WOp::Unary(x) => guard(|| wr.w.write_unary(*x)),
                        WOp::Flush => guard(|| wr.w.flush()),
                        WOp::Code(c, v) => guard(|| wr.w.write_code(*c, *v)),
                        WOp::IoWrite(_) => continue,
                    };
                    t.ev(&sec, format!("{} -> {} counter {:?}", op.to_string(), show(&r), wr.w.counter()));
                    if (i + h) % 3 == 0 {
                        let n = [1u64, 7, 64, 65, 130, 517][(i + h) % 6];
                        let r = guard(|| wr.w.copy_from(src.r.as_mut(), n));
                        t.ev(&sec, format!("copy_from {} -> {} counter {:?} source at {}", n, show(&r), wr.w.counter(), show(&guard(|| src.r.bit_pos().unwrap()))));
                    }
                }
                let _ = guard(|| wr.w.flush());
                t.ev(&sec, format!("image {} counter {:?}", hex(&wr.w.delivered().unwrap_or_default()), wr.w.counter()));
            }
        }
        for kind in [RKind::Buf16, RKind::Buf32, RKind::Buf64, RKind::Unbuf] {
            let sec = format!("wrap-read/{}/{}", e.name(), kind.name());
            let img = random_image(&mut rng, Pattern::Random, 1024, e);
            for h in 0..8 * scale {
                let mut r = make_wrapped_reader(e, kind, Wrap::Count, &img);
                let mut dst = make_writer(WCfg { e, w: WWord::ALL[h % 5], be: WBackend::Rec(None) });
                for i in 0..(2 + h % 9) {
                    let s = match (i + h) % 5 {
                        0 => format!("read_bits -> {}", show(&guard(|| r.r.read_bits(1 + (i * 13 + h) % 64)))),
                        1 => format!("peek_bits -> {}", show(&guard(|| r.r.peek_bits(1 + (i + h) % kind.peek_limit())))),
                        2 => format!("skip_bits -> {}", show(&guard(|| r.r.skip_bits((i * 29 + h) % 150)))),
                        3 => format!("read_unary -> {}", show(&guard(|| r.r.read_unary()))),
                        _ => {
                            let n = [1u64, 9, 64, 65, 129, 300][(i + h) % 6];
                            format!("copy_to {} -> {}", n, show(&guard(|| r.r.copy_to(dst.w.as_mut(), n))))
                        }
                    };
                    t.ev(&sec, format!("{} counter {:?} pos {:?}", s, r.r.counter(), r.r.bit_pos()));
                }
                let _ = guard(|| dst.w.flush());
                t.ev(&sec, format!("copied {}", hex(&dst.w.delivered().unwrap_or_default())));
            }
        }
    }
    // ---- lengths ----
    for code in code_grid(false) {
        let sec = format!("len/{}", code.family());
        for v in crate::rng::boundary_values(code.max_value(), 40) {
            for (name, l) in super::codes::lib_lens(code, v) {
                t.ev(&sec, format!("{} {} {} -> {}", code.name(), name, v, show(&l)));
            }
        }
    }
    t
}

pub fn digest(_ctx: &Ctx) -> String {
    let t = transcript(3000, 2);
    let mut s = String::new();
    s.push_str(&format!("build checks={} no_copy_impls={} debug_assertions={}\n", CHECKS, NO_COPY_IMPLS, cfg!(debug_assertions)));
    for (name, (h, n, _)) in &t.sections {
        s.push_str(&format!("section {} {:016x} {}\n", name, h, n));
    }
    for (name, (_, _, evs)) in &t.sections {
        for (i, e) in evs.iter().enumerate() {
            s.push_str(&format!("event {} {} {}\n", name, i, e));
        }
    }
    s
}

// ---- the argument-checking matrix ----------------------------------------------------------------

fn dirty_matrix(e: En, w: WWord, rep: &mut Report) {
    let wbits = w.bits();
    let kvf = |n: usize, bit: Option<usize>, fill: usize| move || format!("part=matrix e={} w={} n={} bit={} fill={}", e.name(), w.name(), n, bit.map(|b| b as i64).unwrap_or(-1), fill);
    // fill levels that select the fast path (n < free bits) and the spill path
    let fills = [0usize, 1, wbits / 2, wbits - 1];
    for n in 0..=64usize {
        let mask = if n == 64 { u64::MAX } else { (1u64 << n) - 1 };
        for &fill in &fills {
            let path = if n < wbits - fill { "fast" } else { "spill" };
            let prefill = |h: &mut WriterHandle| {
                let mut left = fill;
                while left > 0 {
                    let m = left.min(64);
                    let _ = guard(|| h.w.write_bits(0, m));
                    left -= m;
                }
            };
            // clean arguments never panic, in any build
            for v in [0u64, mask, 0x5555_5555_5555_5555 & mask, if n > 0 { 1u64 << (n - 1) } else { 0 }] {
                let mut h = make_writer(WCfg { e, w, be: WBackend::Rec(None) });
                prefill(&mut h);
                let r = guard(|| h.w.write_bits(v, n));
                rep.eval(1);
                if r != Out::Ok(n) {
                    rep.violation(&format!("clean-argument|{}|{}", path, r.class()), || format!("write_bits({:#x}, {}) with {} bits pending ({} {} writer, checks={}) returned {}", v, n, fill, e.name(), w.name(), CHECKS, r.show()), kvf(n, None, fill));
                }
                let _ = guard_v(|| h.w.drop_now());
            }
            // every single dirty bit at or above n
            for bit in n..64 {
                let v = (0x5555_5555_5555_5555 & mask) | (1u64 << bit);
                let mut h = make_writer(WCfg { e, w, be: WBackend::Rec(None) });
                prefill(&mut h);
                let r = guard(|| h.w.write_bits(v, n));
                rep.eval(1);
                rep.case(&(e, w, n, bit, path));
                let panicked_on_check = matches!(&r, Out::Panic(p) if p.contains("does not fit"));
                if CHECKS && !panicked_on_check {
                    rep.violation(&format!("dirty-not-detected|{}", path), || format!("with checks, write_bits({:#x}, {}) (bit {} set, {} bits pending, {} {}) returned {} instead of panicking", v, n, bit, fill, e.name(), w.name(), r.show()), kvf(n, Some(bit), fill));
                }
                if !CHECKS && r != Out::Ok(n) {
                    rep.violation(&format!("dirty-panics-without-checks|{}|{}", path, r.class()), || format!("without checks, write_bits({:#x}, {}) returned {}", v, n, r.show()), kvf(n, Some(bit), fill));
                }
                let _ = guard_v(|| h.w.drop_now());
            }
        }
    }
    rep.exhaustive(&format!("{}/{}: write_bits(v, n) for every n in 0..=64 x every single dirty bit >= n x 4 fill levels (fast and spill path)", e.name(), w.name()));
}

/// writes issued by the library itself must never trip the check
fn library_writes(e: En, w: WWord, ctx: &Ctx, rep: &mut Report) {
    let mut rng = Rng::derive(ctx.seed, hash_of(&(0xC19Au64, e, w)));
    let thorough = ctx.tier == Tier::Thorough;
    for code in code_grid(thorough) {
        let vals = value_grid(code, ctx.pick(4, 24, 100), &mut rng, ctx.pick(1, 6, 40));
        for (vi, v) in vals.iter().enumerate() {
            if code_len(code, *v) > 3000 {
                continue;
            }
            for (mi, wop) in super::codes::write_methods(code).into_iter().enumerate() {
                if !thorough && (vi + mi) % 2 == 1 && mi > 0 {
                    continue;
                }
                let mut h = make_writer(WCfg { e, w, be: WBackend::Rec(None) });
                let pre = (vi * 7 + mi) % w.bits();
                let mut left = pre;
                while left > 0 {
                    let m = left.min(64);
                    let _ = guard(|| h.w.write_bits(0, m));
                    left -= m;
                }
                let r = guard(|| h.w.write_code(wop, *v));
                rep.eval(1);
                if r != Out::Ok(code_len(code, *v) as usize) {
                    rep.violation(
                        &format!("library-write|{}|{}", code.family(), r.class()),
                        || format!("{} of {} on a {} {} writer (checks={}) returned {}", wop.name(), v, e.name(), w.name(), CHECKS, r.show()),
                        || format!("part=libwrite e={} w={} wop={} value={} pre={}", e.name(), w.name(), codeop_to_string(&wop), v, pre),
                    );
                }
                let _ = guard_v(|| h.w.drop_now());
            }
        }
    }
    // copies and byte writes
    for kind in RKind::ALL {
        let rw = kind.word_bits();
        let img = random_image(&mut rng, Pattern::Random, (1600 / 8 / (rw / 8) + 1) * (rw / 8), e);
        let fills: Vec<usize> = if kind.buffered() { (0..2 * rw).step_by(ctx.pick(17, 3, 1)).collect() } else { vec![0, 1, 63] };
        for f in fills {
            for n in [0u64, 1, 5, 31, 63, 64, 65, 70, 100, 127, 128, 130, 300] {
                for path in 0..3 {
                    let mut r = make_reader(RCfg { e, kind, be: RBackend::MemZ }, &img);
                    let mut wr = make_writer(WCfg { e, w, be: WBackend::Rec(None) });
                    let prefix = if kind.buffered() { fill_prefix(f, rw) } else { vec![ROp::Skip(f)] };
                    for op in &prefix {
                        match op {
                            ROp::Read(k) => {
                                let _ = guard(|| r.r.read_bits(*k));
                            }
                            ROp::Peek(k) => {
                                let _ = guard(|| r.r.peek_bits(*k));
                            }
                            ROp::Skip(k) => {
                                let _ = guard(|| r.r.skip_bits(*k));
                            }
                            _ => {}
                        }
                    }
                    let _ = guard(|| wr.w.write_bits(1, (f * 3) % w.bits().min(64)));
                    let res = match path {
                        0 => guard(|| r.r.copy_to(wr.w.as_mut(), n)),
                        1 => guard(|| wr.w.copy_from(r.r.as_mut(), n)),
                        _ => guard(|| generic_copy(e, r.r.as_mut(), wr.w.as_mut(), n, true)),
                    };
                    rep.eval(1);
                    if !res.is_ok() {
                        rep.violation(
                            &format!("library-write|copy|{}", res.class()),
                            || format!("copy path {} of {} bits from {} at fill {} into a {} {} writer (checks={}) returned {}", path, n, kind.name(), f, e.name(), w.name(), CHECKS, res.show()),
                            || format!("part=copy e={} w={} kind={} fill={} n={} path={}", e.name(), w.name(), kind.name(), f, n, path),
                        );
                    }
                    let _ = guard_v(|| wr.w.drop_now());
                }
            }
        }
    }
    for len in 0..40usize {
        for off in [0usize, 1, 7, w.bits() - 1] {
            let mut h = make_writer(WCfg { e, w, be: WBackend::Rec(None) });
            let _ = guard(|| h.w.write_bits(0, off.min(64)));
            let bytes: Vec<u8> = (0..len).map(|i| (i as u8).wrapping_mul(151) ^ 0xff).collect();
            let r = guard(|| h.w.io_write_all(&bytes).unwrap());
            rep.eval(1);
            if !r.is_ok() {
                rep.violation(&format!("library-write|io_write|{}", r.class()), || format!("write_all of {} bytes at bit {} ({} {}, checks={}) returned {}", len, off, e.name(), w.name(), CHECKS, r.show()), || format!("part=io e={} w={} len={} off={}", e.name(), w.name(), len, off));
            }
            let _ = guard_v(|| h.w.drop_now());
        }
    }
}

#[derive(Clone, Copy, Debug, PartialEq, Eq, Hash)]
enum Item {
    Matrix(En, WWord),
    LibWrites(En, WWord),
    Digest,
}

pub fn run(ctx: &Ctx) -> Report {
    let mut work = vec![Item::Digest];
    for e in En::BOTH {
        for w in WWord::ALL {
            work.push(Item::Matrix(e, w));
            work.push(Item::LibWrites(e, w));
        }
    }
    let mut rep = par_items(ctx, "C19", &work, |item, rep| match *item {
        Item::Matrix(e, w) => dirty_matrix(e, w, rep),
        Item::LibWrites(e, w) => library_writes(e, w, ctx, rep),
        Item::Digest => {
            let t = transcript(4, ctx.pick(1, 2, 8));
            for (name, (h, n, evs)) in &t.sections {
                // the aggregator unions these sets over the build variants: more than one
                // element in a set = two builds produced different observable results
                rep.cover(&format!("digest/{}", name), *h);
                rep.eval(*n);
                rep.count("transcript_events", *n);
                if let Some(e0) = evs.first() {
                    if name.starts_with("copy/BE/buf-u64/u128") || name.starts_with("write/LE/u8") {
                        rep.sample(|| format!("[{}] {}", name, e0));
                    }
                }
            }
            rep.case(&("transcript", t.sections.len()));
        }
    });
    rep.note(format!("this build: checks={} no_copy_impls={} debug_assertions={}", CHECKS, NO_COPY_IMPLS, cfg!(debug_assertions)));
    rep
}

pub fn replay(case: &str, rep: &mut Report) {
    let kv = Kv::parse(case);
    let ctx = Ctx { tier: Tier::Quick, seed: 0, threads: 1, procs: 1, variant: "replay".into(), shard: None };
    match kv.get("part") {
        "matrix" => {
            let w = *WWord::ALL.iter().find(|w| w.name() == kv.get("w")).unwrap();
            dirty_matrix(parse_en(kv.get("e")), w, rep);
        }
        "digest" => {
            // a cross-build difference: nothing to replay inside one build; print this build's digest
            println!("{}", digest(&ctx));
        }
        _ => {
            let w = *WWord::ALL.iter().find(|w| w.name() == kv.get("w")).unwrap();
            library_writes(parse_en(kv.get("e")), w, &ctx, rep);
        }
    }
}
