//! C19 placeholder (filled in later)
use crate::Ctx;
pub fn digest(_ctx: &Ctx) -> String { String::new() }
