//! C05 — table-driven coding is observationally identical to bit-by-bit coding.

use super::c02::{fill_prefix, pos_after};
use super::common::*;
use super::diag;
use crate::drivers::*;
use crate::model::*;
use crate::report::{hex, unhex, Kv, Report};
use crate::rng::Rng;
use crate::{par_items, Ctx, Tier};
use dsi_bitstream::prelude as lib;

#[derive(Clone, Copy, Debug, PartialEq, Eq, Hash)]
pub enum Table {
    Gamma,
    Delta,
    Zeta3,
}
impl Table {
    pub const ALL: [Table; 3] = [Table::Gamma, Table::Delta, Table::Zeta3];
    pub fn read_bits(self) -> usize {
        match self {
            Table::Gamma => lib::gamma_tables::READ_BITS,
            Table::Delta => lib::delta_tables::READ_BITS,
            Table::Zeta3 => lib::zeta_tables::READ_BITS,
        }
    }
    pub fn write_max(self) -> u64 {
        match self {
            Table::Gamma => lib::gamma_tables::WRITE_MAX,
            Table::Delta => lib::delta_tables::WRITE_MAX,
            Table::Zeta3 => lib::zeta_tables::WRITE_MAX,
        }
    }
    pub fn len_table_size(self) -> usize {
        match self {
            Table::Gamma => lib::gamma_tables::LEN.len(),
            Table::Delta => lib::delta_tables::LEN.len(),
            Table::Zeta3 => lib::zeta_tables::LEN.len(),
        }
    }
    pub fn code(self) -> Code {
        match self {
            Table::Gamma => Code::Gamma,
            Table::Delta => Code::Delta,
            Table::Zeta3 => Code::Zeta(3),
        }
    }
    pub fn name(self) -> &'static str {
        match self {
            Table::Gamma => "gamma",
            Table::Delta => "delta",
            Table::Zeta3 => "zeta3",
        }
    }
    pub fn parse(s: &str) -> Table {
        *Table::ALL.iter().find(|t| t.name() == s).expect("bad table")
    }
    /// every way of reading the code (table on / off / defaults)
    pub fn read_variants(self) -> Vec<CodeOp> {
        match self {
            Table::Gamma => vec![CodeOp::GammaP(false), CodeOp::GammaP(true), CodeOp::Std(Code::Gamma)],
            Table::Delta => vec![
                CodeOp::DeltaP(false, false),
                CodeOp::DeltaP(true, true),
                CodeOp::DeltaP(true, false),
                CodeOp::DeltaP(false, true),
                CodeOp::Std(Code::Delta),
            ],
            Table::Zeta3 => vec![CodeOp::Zeta3P(false), CodeOp::Zeta3P(true), CodeOp::Zeta3Def, CodeOp::Std(Code::Zeta(3)), CodeOp::ZetaKP(3, false)],
        }
    }
    pub fn write_variants(self) -> Vec<CodeOp> {
        match self {
            Table::Gamma => vec![CodeOp::GammaP(false), CodeOp::GammaP(true), CodeOp::Std(Code::Gamma)],
            Table::Delta => vec![
                CodeOp::DeltaP(false, false),
                CodeOp::DeltaP(true, true),
                CodeOp::DeltaP(true, false),
                CodeOp::DeltaP(false, true),
                CodeOp::Std(Code::Delta),
            ],
            Table::Zeta3 => vec![
                CodeOp::Zeta3P(false),
                CodeOp::Zeta3P(true),
                CodeOp::Zeta3Def,
                CodeOp::Std(Code::Zeta(3)),
                CodeOp::ZetaKP(3, false),
                CodeOp::ZetaKP(3, true),
            ],
        }
    }
}

#[derive(Clone, Debug)]
pub struct ReadCase {
    pub cfg: RCfg,
    pub table: Table,
    pub image: Vec<u8>,
    pub prefix: Vec<ROp>,
    pub what: String,
}
impl ReadCase {
    fn to_kv(&self) -> String {
        format!("kind=read cfg={} table={} image={} prefix={} what={}", self.cfg.name(), self.table.name(), hex(&self.image), rops_to_string(&self.prefix), self.what)
    }
}

/// Run every allowed read variant from the same reader state and compare
/// (value, position, following 16 bits) with the model and with each other.
fn prefix_pos(prefix: &[ROp]) -> usize {
    let mut p = 0usize;
    for op in prefix {
        match op {
            ROp::Read(n) | ROp::Skip(n) => p += n,
            ROp::Seek(q) => p = *q as usize,
            _ => {}
        }
    }
    p
}

pub fn check_read(c: &ReadCase, rep: &mut Report) {
    let e = c.cfg.e;
    let zext = c.cfg.be.zext();
    let bits = bits_of_image(&c.image, e);
    let p0 = prefix_pos(&c.prefix);
    let expected = match decode(&bits, p0, e, c.table.code()) {
        Some(x) => x,
        None => {
            rep.count("patterns_not_a_complete_codeword_in_data", 1);
            return;
        }
    };
    let sigbase = format!("{}|{}|{}|{}", e.name(), c.cfg.kind.name(), if zext { "zext" } else { "strict" }, c.table.name());
    let mut results: Vec<(CodeOp, Out<u64>, Out<u64>, Out<u64>)> = vec![];
    for v in c.table.read_variants() {
        match diag::tables_allowed(c.cfg.kind, &v) {
            Ok(true) => {}
            Ok(false) => continue,
            Err(err) => {
                rep.inconclusive(format!("diagnostics probe: {}", err));
                return;
            }
        }
        let mut h = make_reader(c.cfg, &c.image);
        let mut ok = true;
        for op in &c.prefix {
            let r = match op {
                ROp::Read(n) => guard(|| h.r.read_bits(*n).map(|_| ())),
                ROp::Peek(n) => guard(|| h.r.peek_bits(*n).map(|_| ())),
                ROp::Skip(n) => guard(|| h.r.skip_bits(*n)),
                ROp::Seek(q) => guard(|| h.r.set_bit_pos(*q).unwrap()),
                _ => Out::Ok(()),
            };
            ok &= r.is_ok();
        }
        if !ok {
            rep.count("prefix_failed", 1);
            return;
        }
        let val = guard(|| h.r.read_code(v));
        let pos = guard(|| h.r.bit_pos().unwrap());
        // following bits (within data for strict backends)
        let n_after = 16.min(bits.len().saturating_sub(expected.1));
        let after = if zext || n_after > 0 { guard(|| h.r.read_bits(if zext { 16 } else { n_after })) } else { Out::Ok(0) };
        rep.eval(1);
        let exp_after = get_bits_zext(&bits, expected.1, if zext { 16 } else { n_after }, e);
        if val != Out::Ok(expected.0) || pos != Out::Ok(expected.1 as u64) || after != Out::Ok(exp_after) {
            let class = if !val.is_ok() {
                val.class()
            } else if val != Out::Ok(expected.0) {
                "wrong-value".into()
            } else if pos != Out::Ok(expected.1 as u64) {
                "wrong-position".into()
            } else {
                "following-bits".into()
            };
            rep.violation(
                &format!("{}|{}|{}", sigbase, v.name().split('(').next().unwrap_or(""), class),
                || {
                    format!(
                        "{} at bit {} ({}): value {} position {} next bits {}; definition gives value {} ending at bit {} next bits {:#x}",
                        v.name(),
                        p0,
                        c.what,
                        val.show(),
                        pos.show(),
                        after.show(),
                        expected.0,
                        expected.1,
                        exp_after
                    )
                },
                || c.to_kv(),
            );
        }
        results.push((v, val, pos, after));
    }
    // the tables' own length look-up (len_table_*): when it answers, it must give the codeword
    // length and skip exactly the codeword; when it declines, it must not move
    let probe = match c.table {
        Table::Gamma => CodeOp::GammaP(true),
        Table::Delta => CodeOp::DeltaP(true, false),
        Table::Zeta3 => CodeOp::Zeta3P(true),
    };
    if let Ok(true) = diag::tables_allowed(c.cfg.kind, &probe) {
        let mut h = make_reader(c.cfg, &c.image);
        for op in &c.prefix {
            let _ = match op {
                ROp::Read(n) => guard(|| h.r.read_bits(*n).map(|_| ())),
                ROp::Peek(n) => guard(|| h.r.peek_bits(*n).map(|_| ())),
                ROp::Skip(n) => guard(|| h.r.skip_bits(*n)),
                ROp::Seek(q) => guard(|| h.r.set_bit_pos(*q).unwrap()),
                _ => Out::Ok(()),
            };
        }
        let got: Out<Option<usize>> = guard_v(|| {
            use std::marker::PhantomData;
            let r = h.r.as_mut();
            match (e, c.table) {
                (En::BE, Table::Gamma) => lib::gamma_tables::len_table_be(&mut DynR::<lib::BE>(r, PhantomData)),
                (En::LE, Table::Gamma) => lib::gamma_tables::len_table_le(&mut DynR::<lib::LE>(r, PhantomData)),
                (En::BE, Table::Delta) => lib::delta_tables::len_table_be(&mut DynR::<lib::BE>(r, PhantomData)),
                (En::LE, Table::Delta) => lib::delta_tables::len_table_le(&mut DynR::<lib::LE>(r, PhantomData)),
                (En::BE, Table::Zeta3) => lib::zeta_tables::len_table_be(&mut DynR::<lib::BE>(r, PhantomData)),
                (En::LE, Table::Zeta3) => lib::zeta_tables::len_table_le(&mut DynR::<lib::LE>(r, PhantomData)),
            }
        });
        let pos = guard(|| h.r.bit_pos().unwrap());
        rep.eval(1);
        let clen = expected.1 - p0;
        let ok = match &got {
            Out::Ok(Some(l)) => *l == clen && pos == Out::Ok(expected.1 as u64),
            Out::Ok(None) => pos == Out::Ok(p0 as u64),
            _ => false,
        };
        if !ok {
            rep.violation(
                &format!("{}|len_table|{}", sigbase, if got.is_ok() { "wrong-length-or-position".to_string() } else { got.class() }),
                || format!("len_table at bit {} ({}): {} and position {}; the codeword has {} bits and ends at {}", p0, c.what, got.show(), pos.show(), clen, expected.1),
                || c.to_kv(),
            );
        }
    }
    // pairwise agreement (also when the model itself were off)
    for w in results.windows(2) {
        rep.eval(1);
        if (&w[0].1, &w[0].2, &w[0].3) != (&w[1].1, &w[1].2, &w[1].3) {
            rep.violation(
                &format!("{}|variants-disagree", sigbase),
                || format!("{} gives ({}, {}, {}) but {} gives ({}, {}, {}) from the same state ({})", w[0].0.name(), w[0].1.show(), w[0].2.show(), w[0].3.show(), w[1].0.name(), w[1].1.show(), w[1].2.show(), w[1].3.show(), c.what),
                || c.to_kv(),
            );
        }
    }
}

#[derive(Clone, Copy, Debug, PartialEq, Eq, Hash)]
enum Item {
    /// decode tables: all look-ahead patterns
    Patterns(En, Table, RKind),
    /// strict tail: codeword ends in the last word, fewer than READ_BITS bits left
    Tail(En, Table, RKind),
    /// encode and length tables
    WriteLen(En, Table),
}

pub fn run(ctx: &Ctx) -> Report {
    let mut work: Vec<Item> = vec![];
    for e in En::BOTH {
        for t in Table::ALL {
            for k in RKind::ALL {
                work.push(Item::Patterns(e, t, k));
                work.push(Item::Tail(e, t, k));
            }
            work.push(Item::WriteLen(e, t));
        }
    }
    let mut rep = par_items(ctx, "C05", &work, |item, rep| match *item {
        Item::Patterns(e, t, kind) => patterns(ctx, e, t, kind, rep),
        Item::Tail(e, t, kind) => tail(ctx, e, t, kind, rep),
        Item::WriteLen(e, t) => write_len(ctx, e, t, rep),
    });
    rep.note(format!("(reader, table) pairs exempted because construction printed the diagnostic: [{}]", diag::describe()));
    rep
}

fn in_scope(kind: RKind, t: Table, rep: &mut Report) -> bool {
    // the table-on variant of this very table must be allowed, otherwise the reader is exempt
    let probe = match t {
        Table::Gamma => CodeOp::GammaP(true),
        Table::Delta => CodeOp::DeltaP(true, false),
        Table::Zeta3 => CodeOp::Zeta3P(true),
    };
    match diag::tables_allowed(kind, &probe) {
        Ok(b) => b,
        Err(e) => {
            rep.inconclusive(format!("diagnostics probe: {}", e));
            false
        }
    }
}

fn patterns(ctx: &Ctx, e: En, t: Table, kind: RKind, rep: &mut Report) {
    if !in_scope(kind, t, rep) {
        rep.note(format!("{} x {} table: exempt (diagnostic printed at construction); default and table-off methods are still compared", kind.name(), t.name()));
    }
    let w = kind.word_bits();
    let wb = w / 8;
    let rb = t.read_bits();
    let mut rng = Rng::derive(ctx.seed, crate::report::hash_of(&(0xC05u64, e, t, kind)));
    let npat = 1usize << rb;
    let states: Vec<(usize, Vec<ROp>)> = if kind.buffered() {
        (0..2 * w).map(|f| (f, fill_prefix(f, w))).collect()
    } else {
        (0..64).map(|o| (o, if o == 0 { vec![] } else { vec![ROp::Skip(o)] })).collect()
    };
    let step = if ctx.tier == Tier::Tiny { 37 } else { 1 };
    for idx in (0..npat).step_by(step) {
        // fill levels: the boundary ones always, the others in rotation (all of them in thorough)
        let sel: Vec<usize> = match ctx.tier {
            Tier::Thorough => (0..states.len()).collect(),
            _ => {
                let mut s = vec![0, 1, w - 1, w.min(states.len() - 1), states.len() - 1, idx % states.len(), (idx * 7 + 3) % states.len()];
                s.retain(|x| *x < states.len());
                s.sort_unstable();
                s.dedup();
                s
            }
        };
        for (si, &sx) in sel.iter().enumerate() {
            let (f, prefix) = &states[sx];
            let p0 = pos_after(prefix);
            let conts: Vec<u8> = if ctx.tier == Tier::Thorough { vec![0, 1, 2] } else { vec![((idx + si) % 3) as u8] };
            for cont in conts {
                let mut bits: Bits = (0..p0).map(|_| (rng.next() & 1) as u8).collect();
                push_bits(&mut bits, e, idx as u64, rb);
                let ncont = 200 + 2 * w;
                for _ in 0..ncont {
                    bits.push(match cont {
                        0 => 0,
                        1 => 1,
                        _ => (rng.next() & 1) as u8,
                    });
                }
                let img = image(&bits, e, wb);
                let be = match (idx + si) % 6 {
                    0 => RBackend::RecZ,
                    1 => RBackend::MemZ,
                    2 => RBackend::MemS,
                    3 => RBackend::AdCursor,
                    4 => RBackend::WVec,
                    _ => RBackend::RecS,
                };
                let c = ReadCase { cfg: RCfg { e, kind, be }, table: t, image: img, prefix: prefix.clone(), what: format!("pattern={:#x},fill={},cont={}", idx, f, cont) };
                check_read(&c, rep);
                let fclass = if *f == 0 { 0 } else if *f < w { 1 } else if *f == w { 2 } else { 3 };
                rep.case(&(t, e, idx, kind, fclass, cont));
                if idx % 997 == 313 && si == 0 {
                    rep.sample(|| c.to_kv());
                }
            }
        }
    }
    // the same patterns reached by seeking back to them after the reader has been elsewhere (the
    // buffer then held other bits): aligned and unaligned targets, from before and from beyond
    if ctx.tier != Tier::Tiny {
        let targets = [0usize, w, 2 * w, 1, w - 1, w + 1, w + w / 2];
        for idx in (0..npat).step_by(if ctx.tier == Tier::Thorough { 1 } else { 3 }) {
            let tsel: Vec<usize> = if ctx.tier == Tier::Thorough { (0..targets.len()).collect() } else { vec![idx % targets.len(), (idx / 7 + 1) % 3] };
            for ti in tsel {
                let p0 = targets[ti];
                let walk = [1usize, w / 2, w + 3, 2 * w + 1][(idx + ti) % 4];
                let mut bits: Bits = (0..p0).map(|_| (rng.next() & 1) as u8).collect();
                push_bits(&mut bits, e, idx as u64, rb);
                for k in 0..(200 + 4 * w) {
                    bits.push(if (idx + ti) % 2 == 0 { 1 } else { ((rng.next() >> (k % 7)) & 1) as u8 });
                }
                let img = image(&bits, e, wb);
                let be = RBackend::ALL[(idx + ti) % RBackend::ALL.len()];
                let prefix = if (idx + ti) % 3 == 0 { vec![ROp::Read((p0 + walk).min(64)), ROp::Skip((p0 + walk).saturating_sub(64)), ROp::Seek(p0 as u64)] } else { vec![ROp::Skip(p0 + walk), ROp::Peek(kind.peek_limit().min(w)), ROp::Seek(p0 as u64)] };
                let c = ReadCase { cfg: RCfg { e, kind, be }, table: t, image: img, prefix, what: format!("pattern={:#x},after-seek-to={},walked={}", idx, p0, walk) };
                check_read(&c, rep);
                rep.case(&(t, e, idx, kind, "seek", ti));
                rep.count("table_reads_right_after_a_seek", 1);
            }
        }
    }
    if ctx.tier != Tier::Tiny {
        rep.exhaustive(&format!("{} {} {}: all {} look-ahead patterns", e.name(), t.name(), kind.name(), npat));
    }
}

fn tail(ctx: &Ctx, e: En, t: Table, kind: RKind, rep: &mut Report) {
    let w = kind.word_bits();
    let wb = w / 8;
    let rb = t.read_bits();
    let mut rng = Rng::derive(ctx.seed, crate::report::hash_of(&(0xC05Fu64, e, t, kind)));
    let code = t.code();
    let vmax = t.write_max() + 40;
    let vstep = ctx.pick(97, 1, 1);
    for v in (0..=vmax).step_by(vstep) {
        let len = code_len(code, v) as usize;
        // tail = bits of data left after the codeword: 0..READ_BITS (so that a peek of READ_BITS runs past the end)
        let tails: Vec<usize> = if ctx.tier == Tier::Thorough || v < 70 { (0..=rb + 1).collect() } else { vec![0, 1, (v as usize) % rb, rb - 1] };
        for tl in tails {
            // total length a multiple of the word size, with at least one full word before the code
            let body = len + tl;
            let total = (w + body).div_ceil(w) * w + if (v + tl as u64) % 3 == 0 { w } else { 0 };
            let start = total - body;
            let mut bits: Bits = (0..start).map(|_| (rng.next() & 1) as u8).collect();
            push_code(&mut bits, e, code, v);
            for _ in 0..tl {
                bits.push((rng.next() & 1) as u8);
            }
            assert_eq!(bits.len(), total);
            let img = image(&bits, e, wb);
            // approach the codeword in different ways so that the buffer holds 0, few or many bits
            let prefixes: Vec<Vec<ROp>> = vec![
                vec![ROp::Skip(start)],
                {
                    let mut p = vec![];
                    let mut left = start;
                    while left > 0 {
                        let n = left.min(59);
                        p.push(ROp::Read(n));
                        left -= n;
                    }
                    p
                },
            ];
            for (pi, prefix) in prefixes.into_iter().enumerate() {
                for be in [RBackend::RecS, RBackend::MemS, RBackend::WVec, RBackend::WSlice, RBackend::AdCursor, RBackend::AdBufReader, RBackend::MemZ] {
                    if ctx.tier != Tier::Thorough && (v as usize + tl + pi) % 3 != 0 && !matches!(be, RBackend::RecS | RBackend::MemS) {
                        continue;
                    }
                    // ROp::Skip/Read sums give p0 = start
                    let c = ReadCase { cfg: RCfg { e, kind, be }, table: t, image: img.clone(), prefix: prefix.clone(), what: format!("value={},tail={}", v, tl) };
                    check_read(&c, rep);
                    rep.case(&(t, e, v, kind, tl, "tail"));
                }
            }
        }
    }
    rep.exhaustive(&format!("{} {} {}: every value 0..={} ending 0..={} bits before the end of a strict stream", e.name(), t.name(), kind.name(), vmax, rb + 1));
}

fn write_len(ctx: &Ctx, e: En, t: Table, rep: &mut Report) {
    let code = t.code();
    let vmax = t.write_max().max(t.len_table_size() as u64) + 64;
    let step = ctx.pick(13, 1, 1);
    for v in (0..=vmax).step_by(step) {
        let model_bits = encode(e, code, v);
        let mut outs: Vec<(CodeOp, Out<usize>, Vec<u8>)> = vec![];
        for (vi, wv) in t.write_variants().into_iter().enumerate() {
            let ww = WWord::ALL[(v as usize + vi) % 5];
            let pre = (v as usize * 5 + vi) % (ww.bits() + 3);
            let mut h = make_writer(WCfg { e, w: ww, be: WBackend::VecOwned });
            let mut mb: Bits = vec![];
            let mut left = pre;
            while left > 0 {
                let n = left.min(64);
                let _ = guard(|| h.w.write_bits(0, n));
                push_bits(&mut mb, e, 0, n);
                left -= n;
            }
            let ret = guard(|| h.w.write_code(wv, v));
            mb.extend_from_slice(&model_bits);
            let bytes = guard(|| h.w.into_bytes().unwrap());
            rep.eval(1);
            let img = image(&mb, e, ww.bytes());
            let bytes_v = bytes.clone().ok().unwrap_or_default();
            if ret != Out::Ok(model_bits.len()) || bytes != Out::Ok(img.clone()) {
                rep.violation(
                    &format!("{}|{}|write|{}|{}", e.name(), t.name(), wv.name().split('(').next().unwrap_or(""), if !ret.is_ok() { ret.class() } else if ret != Out::Ok(model_bits.len()) { "wrong-length".into() } else { "wrong-bits".into() }),
                    || format!("{} of {} ({} writer, {} bits before): returned {} bytes {}; bit-by-bit definition: {} bits, bytes {}", wv.name(), v, ww.name(), pre, ret.show(), hex(&bytes_v), model_bits.len(), hex(&img)),
                    || format!("kind=write e={} table={} value={} variant={} w={} pre={}", e.name(), t.name(), v, codeop_to_string(&wv), ww.name(), pre),
                );
            }
            // codeword bits only, for the pairwise comparison
            let gb = bits_of_image(&bytes_v, e);
            let cw: Vec<u8> = gb.iter().skip(pre).take(model_bits.len()).cloned().collect();
            outs.push((wv, ret, cw));
        }
        for w2 in outs.windows(2) {
            rep.eval(1);
            if w2[0].1 != w2[1].1 || w2[0].2 != w2[1].2 {
                rep.violation(
                    &format!("{}|{}|write|variants-disagree", e.name(), t.name()),
                    || format!("value {}: {} wrote {} ({}), {} wrote {} ({})", v, w2[0].0.name(), bits_to_string(&w2[0].2), w2[0].1.show(), w2[1].0.name(), bits_to_string(&w2[1].2), w2[1].1.show()),
                    || format!("kind=write e={} table={} value={} variant={} w=u64 pre=0", e.name(), t.name(), v, codeop_to_string(&w2[1].0)),
                );
            }
        }
        // length tables in every option combination
        for (name, got) in super::codes::lib_lens(code, v) {
            rep.eval(1);
            if got != Out::Ok(model_bits.len()) {
                rep.violation(
                    &format!("{}|len|{}", t.name(), name.split('<').next().unwrap_or("")),
                    || format!("{}({}) = {} but the bit-by-bit codeword has {} bits", name, v, got.show(), model_bits.len()),
                    || format!("kind=len e={} table={} value={}", e.name(), t.name(), v),
                );
            }
        }
        rep.case(&(t, e, v, "write-len"));
    }
    rep.exhaustive(&format!("{} {}: every value 0..={} through every write/len option combination", e.name(), t.name(), vmax));
}

pub fn replay(case: &str, rep: &mut Report) {
    let kv = Kv::parse(case);
    match kv.get("kind") {
        "read" => {
            let c = ReadCase {
                cfg: parse_rcfg(kv.get("cfg")),
                table: Table::parse(kv.get("table")),
                image: unhex(kv.get("image")),
                prefix: parse_rops(kv.get("prefix")),
                what: kv.opt("what").unwrap_or("").to_string(),
            };
            check_read(&c, rep);
        }
        _ => {
            // write/len cases are cheap: re-run the whole sweep of that table
            let ctx = Ctx { tier: Tier::Quick, seed: 0, threads: 1, procs: 1, variant: "replay".into(), shard: None };
            write_len(&ctx, parse_en(kv.get("e")), Table::parse(kv.get("table")), rep);
        }
    }
}
