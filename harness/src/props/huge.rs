//! Streams longer than 2^32 bits, without materialising them: sparse word backends that count the
//! words and keep only the non-zero ones. Used by C01 (one unary code of more than 2^32 zeros must be
//! delivered word for word), C02 (reading it back, skipping over it) and C07 (positions and seeks
//! beyond 2^32 bits). A truncating cast anywhere on those paths is invisible below 2^32.

use super::common::*;
use crate::backends::HWord;
use crate::drivers::*;
use crate::model::*;
use crate::report::{Kv, Report};
use dsi_bitstream::prelude::*;
use std::collections::BTreeMap;
use std::io;

/// WordWrite that counts words and keeps the non-zero ones (as image bytes)
#[derive(Debug)]
pub struct SparseWrite<W: HWord> {
    pub words: u64,
    pub nonzero: BTreeMap<u64, Vec<u8>>,
    pub limit: u64,
    _m: core::marker::PhantomData<W>,
}
impl<W: HWord> SparseWrite<W> {
    pub fn new(limit: u64) -> Self {
        Self { words: 0, nonzero: BTreeMap::new(), limit, _m: Default::default() }
    }
    /// non-zero bytes of the image: byte index -> value
    pub fn bytes(&self) -> BTreeMap<u64, u8> {
        let mut m = BTreeMap::new();
        for (i, w) in &self.nonzero {
            for (j, b) in w.iter().enumerate() {
                if *b != 0 {
                    m.insert(i * W::NBYTES as u64 + j as u64, *b);
                }
            }
        }
        m
    }
}
impl<W: HWord> WordWrite for SparseWrite<W> {
    type Error = io::Error;
    type Word = W;
    #[inline]
    fn write_word(&mut self, word: W) -> Result<(), io::Error> {
        if std::thread::panicking() {
            return Ok(());
        }
        if self.words >= self.limit {
            panic!("{}", crate::backends::BUDGET_MSG);
        }
        if word != W::ZERO {
            if self.nonzero.len() > 64 {
                panic!("{}", crate::backends::BUDGET_MSG);
            }
            self.nonzero.insert(self.words, word.to_ne_vec());
        }
        self.words += 1;
        if self.words & 0xF_FFFF == 0 {
            crate::tick(); // progress on the logical clock of the hang watchdog
        }
        Ok(())
    }
    fn flush(&mut self) -> Result<(), io::Error> {
        Ok(())
    }
}

/// WordRead + WordSeek over a sparse image: zero everywhere except the listed bytes; `total` words
/// (strict end beyond that).
#[derive(Clone)]
pub struct SparseRead<W: HWord> {
    pub pos: u64,
    pub total: u64,
    pub words: BTreeMap<u64, W>,
    pub calls: u64,
    pub limit: u64,
}
impl<W: HWord> SparseRead<W> {
    pub fn new(bytes: &BTreeMap<u64, u8>, total: u64, limit: u64) -> Self {
        let mut tmp: BTreeMap<u64, Vec<u8>> = BTreeMap::new();
        for (i, b) in bytes {
            let e = tmp.entry(i / W::NBYTES as u64).or_insert_with(|| vec![0u8; W::NBYTES]);
            e[(i % W::NBYTES as u64) as usize] = *b;
        }
        Self { pos: 0, total, words: tmp.into_iter().map(|(k, v)| (k, W::from_ne_slice(&v))).collect(), calls: 0, limit }
    }
}
impl<W: HWord> WordRead for SparseRead<W> {
    type Error = io::Error;
    type Word = W;
    #[inline]
    fn read_word(&mut self) -> Result<W, io::Error> {
        self.calls += 1;
        if self.calls & 0xF_FFFF == 0 {
            crate::tick();
        }
        if self.calls > self.limit {
            panic!("{}", crate::backends::BUDGET_MSG);
        }
        if self.pos >= self.total {
            return Err(io::Error::new(io::ErrorKind::UnexpectedEof, "sparse backend: end of data"));
        }
        let w = if self.words.is_empty() { W::ZERO } else { self.words.get(&self.pos).copied().unwrap_or(W::ZERO) };
        self.pos += 1;
        Ok(w)
    }
}
impl<W: HWord> WordSeek for SparseRead<W> {
    type Error = io::Error;
    fn word_pos(&mut self) -> Result<u64, io::Error> {
        Ok(self.pos)
    }
    fn set_word_pos(&mut self, p: u64) -> Result<(), io::Error> {
        if p > self.total {
            return Err(io::Error::new(io::ErrorKind::UnexpectedEof, "sparse backend: seek beyond the end"));
        }
        self.pos = p;
        Ok(())
    }
}

/// sparse image of a list of (position, bits) fragments: byte index -> value
pub fn sparse_image(e: En, frags: &[(u64, Bits)]) -> BTreeMap<u64, u8> {
    let mut m: BTreeMap<u64, u8> = BTreeMap::new();
    for (start, bits) in frags {
        for (k, b) in bits.iter().enumerate() {
            if *b != 0 {
                let p = start + k as u64;
                let bit = match e {
                    En::BE => 7 - (p % 8),
                    En::LE => p % 8,
                };
                *m.entry(p / 8).or_insert(0) |= 1 << bit;
            }
        }
    }
    m
}

fn show_map(m: &BTreeMap<u64, u8>) -> String {
    m.iter().take(12).map(|(k, v)| format!("{}:{:02x}", k, v)).collect::<Vec<_>>().join(" ")
}

macro_rules! write_case {
    ($E:ty, $W:ty, $e:expr, $x:expr, $rep:expr) => {{
        let e: En = $e;
        let x: u64 = $x;
        let rep: &mut Report = $rep;
        let nb = <$W as HWord>::NBITS as u64;
        let kvf = || format!("huge=write e={} w={} x={}", e.name(), <$W as HWord>::WNAME, x);
        let sig = format!("{}|{}|huge-unary", e.name(), <$W as HWord>::WNAME);
        let mut w = BufBitWriter::<$E, _>::new(SparseWrite::<$W>::new((x + 200) / nb + 8));
        let r0 = guard(|| w.write_bits(0b10110, 5).map_err(|e| e.to_string()));
        let r1 = guard(|| w.write_unary(x).map_err(|e| e.to_string()));
        let r2 = guard(|| w.write_bits(0x55, 7).map_err(|e| e.to_string()));
        let r3 = guard(|| w.flush().map_err(|e| e.to_string()));
        rep.eval(4);
        if r0 != Out::Ok(5) || r1 != Out::Ok(x as usize + 1) || r2 != Out::Ok(7) || !r3.is_ok() {
            let cls = [&r0, &r1, &r2].iter().find(|o| !o.is_ok()).map(|o| o.class()).unwrap_or("wrong-return".into());
            rep.violation(&format!("{}|{}", sig, cls), || format!("write_bits(5) = {}, write_unary({}) = {}, write_bits(7) = {}, flush = {}", r0.show(), x, r1.show(), r2.show(), r3.show()), kvf);
        } else {
            match guard(|| w.into_inner().map_err(|e| e.to_string())) {
                Out::Ok(be) => {
                    let mut pre: Bits = vec![];
                    push_bits(&mut pre, e, 0b10110, 5);
                    let mut suf: Bits = vec![1];
                    push_bits(&mut suf, e, 0x55, 7);
                    let exp = sparse_image(e, &[(0, pre), (5 + x, suf)]);
                    let total_bits = 5 + x + 1 + 7;
                    let exp_words = total_bits.div_ceil(nb);
                    let got = be.bytes();
                    if be.words != exp_words || got != exp {
                        rep.violation(
                            &format!("{}|{}", sig, if be.words != exp_words { "word-count" } else { "bits-misplaced" }),
                            || format!("5 bits + unary {} + 7 bits: {} words delivered (expected {}), non-zero bytes [{}] expected [{}]", x, be.words, exp_words, show_map(&got), show_map(&exp)),
                            kvf,
                        );
                    }
                    rep.count("words_delivered_by_huge_unary_writes", be.words);
                }
                o => rep.violation(&format!("{}|into_inner|{}", sig, o.class()), || o.show(), kvf),
            }
        }
        rep.case(&("huge-write", e, <$W as HWord>::WNAME, x));
    }};
}

pub fn check_write(e: En, wbits: usize, x: u64, rep: &mut Report) {
    match (e, wbits) {
        (En::BE, 8) => write_case!(BE, u8, e, x, rep),
        (En::BE, 16) => write_case!(BE, u16, e, x, rep),
        (En::BE, 32) => write_case!(BE, u32, e, x, rep),
        (En::BE, 64) => write_case!(BE, u64, e, x, rep),
        (En::BE, _) => write_case!(BE, u128, e, x, rep),
        (En::LE, 8) => write_case!(LE, u8, e, x, rep),
        (En::LE, 16) => write_case!(LE, u16, e, x, rep),
        (En::LE, 32) => write_case!(LE, u32, e, x, rep),
        (En::LE, 64) => write_case!(LE, u64, e, x, rep),
        (En::LE, _) => write_case!(LE, u128, e, x, rep),
    }
}

/// mode 0: read_unary over the run; 1: skip_bits over the run; 2: seek beyond it (positions > 2^32)
macro_rules! read_case {
    ($R:ident, $E:ty, $W:ty, $e:expr, $x:expr, $mode:expr, $rname:expr, $rep:expr) => {{
        let e: En = $e;
        let x: u64 = $x;
        let mode: u8 = $mode;
        let rep: &mut Report = $rep;
        let nb = <$W as HWord>::NBITS as u64;
        let kvf = || format!("huge=read e={} w={} x={} mode={} reader={}", e.name(), <$W as HWord>::WNAME, x, mode, $rname);
        let sig = format!("{}|{}|{}|huge-{}", e.name(), $rname, <$W as HWord>::WNAME, ["read_unary", "skip_bits", "seek"][mode as usize]);
        let mut pre: Bits = vec![];
        push_bits(&mut pre, e, 0b10110, 5);
        let mut suf: Bits = vec![1];
        push_bits(&mut suf, e, 0x2b, 7);
        push_bits(&mut suf, e, 0x1234_5678_9abc, 48);
        let img = sparse_image(e, &[(0, pre), (5 + x, suf)]);
        let total_words = (5 + x + 56).div_ceil(nb) + 2;
        let be = SparseRead::<$W>::new(&img, total_words, 3 * total_words + 1000);
        let mut r = $R::<$E, _>::new(be);
        let a = guard(|| r.read_bits(5).map_err(|e| e.to_string()));
        rep.eval(4);
        let mut ok = a == Out::Ok(0b10110);
        let mut what = format!("read_bits(5) = {}", a.show());
        match mode {
            0 => {
                let u = guard(|| r.read_unary().map_err(|e| e.to_string()));
                what += &format!(", read_unary = {} (expected {})", u.show(), x);
                ok &= u == Out::Ok(x);
            }
            1 => {
                let s = guard(|| r.skip_bits(x as usize + 1).map_err(|e| e.to_string()));
                what += &format!(", skip_bits({}) = {}", x + 1, s.show());
                ok &= s.is_ok();
            }
            _ => {
                // go beyond, come back to the start, then jump to the far code
                let s0 = guard(|| r.set_bit_pos(5 + x + 8).map_err(|e| e.to_string()));
                let p0 = guard(|| r.bit_pos().map_err(|e| e.to_string()));
                let b0 = guard(|| r.read_bits(48).map_err(|e| e.to_string()));
                let s1 = guard(|| r.set_bit_pos(1).map_err(|e| e.to_string()));
                let b1 = guard(|| r.read_bits(4).map_err(|e| e.to_string()));
                let s2 = guard(|| r.set_bit_pos(5 + x + 1).map_err(|e| e.to_string()));
                what += &format!(", set_bit_pos({}) = {}, bit_pos = {}, read_bits(48) = {}, set_bit_pos(1) = {}, read_bits(4) = {}, set_bit_pos({}) = {}", 5 + x + 8, s0.show(), p0.show(), b0.show(), s1.show(), b1.show(), 5 + x + 1, s2.show());
                let mut four: Bits = vec![];
                push_bits(&mut four, e, 0b10110, 5);
                ok &= s0.is_ok() && p0 == Out::Ok(5 + x + 8) && b0 == Out::Ok(0x1234_5678_9abc) && s1.is_ok() && b1 == Out::Ok(get_bits_zext(&four, 1, 4, e)) && s2.is_ok();
            }
        }
        let p = guard(|| r.bit_pos().map_err(|e| e.to_string()));
        let b = guard(|| r.read_bits(7).map_err(|e| e.to_string()));
        let c = guard(|| r.read_bits(48).map_err(|e| e.to_string()));
        let p2 = guard(|| r.bit_pos().map_err(|e| e.to_string()));
        what += &format!(", then bit_pos = {} (expected {}), read_bits(7) = {} (expected 0x2b), read_bits(48) = {}, bit_pos = {}", p.show(), 5 + x + 1, b.show(), c.show(), p2.show());
        ok &= p == Out::Ok(5 + x + 1) && b == Out::Ok(0x2b) && c == Out::Ok(0x1234_5678_9abc) && p2 == Out::Ok(5 + x + 56);
        if !ok {
            let panicked = what.contains("PANIC");
            rep.violation(&format!("{}|{}", sig, if panicked { "panic" } else { "wrong-result" }), || what.clone(), kvf);
        }
        rep.case(&("huge-read", e, $rname, <$W as HWord>::WNAME, x, mode));
    }};
}

/// kind: word bits of a buffered reader, or 0 for the unbuffered reader (u64 words)
pub fn check_read(e: En, kind_bits: usize, x: u64, mode: u8, rep: &mut Report) {
    match (e, kind_bits) {
        (En::BE, 8) => read_case!(BufBitReader, BE, u8, e, x, mode, "buf", rep),
        (En::BE, 16) => read_case!(BufBitReader, BE, u16, e, x, mode, "buf", rep),
        (En::BE, 32) => read_case!(BufBitReader, BE, u32, e, x, mode, "buf", rep),
        (En::BE, 64) => read_case!(BufBitReader, BE, u64, e, x, mode, "buf", rep),
        (En::BE, _) => read_case!(BitReader, BE, u64, e, x, mode, "unbuf", rep),
        (En::LE, 8) => read_case!(BufBitReader, LE, u8, e, x, mode, "buf", rep),
        (En::LE, 16) => read_case!(BufBitReader, LE, u16, e, x, mode, "buf", rep),
        (En::LE, 32) => read_case!(BufBitReader, LE, u32, e, x, mode, "buf", rep),
        (En::LE, 64) => read_case!(BufBitReader, LE, u64, e, x, mode, "buf", rep),
        (En::LE, _) => read_case!(BitReader, LE, u64, e, x, mode, "unbuf", rep),
    }
}

/// A bulk copy of more than 2^32 bits between sparse streams (path 0: reader.copy_to, 1: writer.copy_from).
macro_rules! copy_case {
    ($E:ty, $RW:ty, $WW:ty, $e:expr, $n:expr, $path:expr, $rep:expr) => {{
        let e: En = $e;
        let n: u64 = $n;
        let path: u8 = $path;
        let rep: &mut Report = $rep;
        let rnb = <$RW as HWord>::NBITS as u64;
        let wnb = <$WW as HWord>::NBITS as u64;
        let kvf = || format!("huge=copy e={} rw={} ww={} n={} path={}", e.name(), <$RW as HWord>::WNAME, <$WW as HWord>::WNAME, n, path);
        let sig = format!("{}|{}->{}|huge-copy|{}", e.name(), <$RW as HWord>::WNAME, <$WW as HWord>::WNAME, if path == 0 { "copy_to" } else { "copy_from" });
        let frag = |seed: u64, len: usize| -> Bits { (0..len).map(|i| ((seed.wrapping_mul(0x9E37_79B9_7F4A_7C15) >> (i % 61)) & 1) as u8 | (i == 0) as u8).collect() };
        let (f0, f1, f2) = (frag(1, 40), frag(2, 40), frag(3, 40));
        let mut suf: Bits = vec![];
        push_bits(&mut suf, e, 0x0fed_cba9_8765, 48);
        let mut pre: Bits = vec![];
        push_bits(&mut pre, e, 0b10110, 5);
        let mid = n / 2 + 13;
        let src = sparse_image(e, &[(0, pre), (5, f0.clone()), (5 + mid, f1.clone()), (5 + n - 40, f2.clone()), (5 + n, suf)]);
        let total = (5 + n + 48).div_ceil(rnb) + 2;
        let mut r = BufBitReader::<$E, _>::new(SparseRead::<$RW>::new(&src, total, total + 64));
        let mut w = BufBitWriter::<$E, _>::new(SparseWrite::<$WW>::new((n + 200) / wnb + 8));
        let a = guard(|| r.read_bits(5).map_err(|e| e.to_string()));
        let b = guard(|| w.write_bits(0b101, 3).map_err(|e| e.to_string()));
        let c = if path == 0 { guard(|| r.copy_to(&mut w, n).map_err(|e| format!("{:?}", e))) } else { guard(|| w.copy_from(&mut r, n).map_err(|e| format!("{:?}", e))) };
        let p = guard(|| r.bit_pos().map_err(|e| e.to_string()));
        let nx = guard(|| r.read_bits(48).map_err(|e| e.to_string()));
        let d = guard(|| w.write_bits(0x2b, 7).map_err(|e| e.to_string()));
        let fl = guard(|| w.flush().map_err(|e| e.to_string()));
        rep.eval(4);
        rep.case(&("huge-copy", e, <$RW as HWord>::WNAME, <$WW as HWord>::WNAME, n, path));
        if a != Out::Ok(0b10110) || !b.is_ok() || !c.is_ok() || p != Out::Ok(5 + n) || nx != Out::Ok(0x0fed_cba9_8765) || !d.is_ok() || !fl.is_ok() {
            rep.violation(
                &format!("{}|{}", sig, if !c.is_ok() { c.class() } else { "source-after-copy".to_string() }),
                || format!("copy of {} bits: copy = {}, source position {} (expected {}), next 48 bits {}, destination write {} flush {}", n, c.show(), p.show(), 5 + n, nx.show(), d.show(), fl.show()),
                kvf,
            );
        } else {
            match guard(|| w.into_inner().map_err(|e| e.to_string())) {
                Out::Ok(be) => {
                    let mut dpre: Bits = vec![];
                    push_bits(&mut dpre, e, 0b101, 3);
                    let mut dsuf: Bits = vec![];
                    push_bits(&mut dsuf, e, 0x2b, 7);
                    let exp = sparse_image(e, &[(0, dpre), (3, f0), (3 + mid, f1), (3 + n - 40, f2), (3 + n, dsuf)]);
                    let exp_words = (3 + n + 7).div_ceil(wnb);
                    let got = be.bytes();
                    if be.words != exp_words || got != exp {
                        rep.violation(
                            &format!("{}|{}", sig, if be.words != exp_words { "word-count" } else { "bits-misplaced" }),
                            || format!("copy of {} bits: destination got {} words (expected {}), non-zero bytes [{}] expected [{}]", n, be.words, exp_words, show_map(&got), show_map(&exp)),
                            kvf,
                        );
                    }
                }
                o => rep.violation(&format!("{}|into_inner|{}", sig, o.class()), || o.show(), kvf),
            }
        }
    }};
}

pub fn check_copy(e: En, combo: usize, n: u64, path: u8, rep: &mut Report) {
    match (e, combo % 4) {
        (En::BE, 0) => copy_case!(BE, u64, u64, e, n, path, rep),
        (En::BE, 1) => copy_case!(BE, u32, u128, e, n, path, rep),
        (En::BE, 2) => copy_case!(BE, u64, u16, e, n, path, rep),
        (En::BE, _) => copy_case!(BE, u16, u32, e, n, path, rep),
        (En::LE, 0) => copy_case!(LE, u64, u64, e, n, path, rep),
        (En::LE, 1) => copy_case!(LE, u32, u128, e, n, path, rep),
        (En::LE, 2) => copy_case!(LE, u64, u16, e, n, path, rep),
        (En::LE, _) => copy_case!(LE, u16, u32, e, n, path, rep),
    }
}

pub fn replay(case: &str, rep: &mut Report) {
    let kv = Kv::parse(case);
    let e = parse_en(kv.get("e"));
    let wbits = match kv.opt("w").unwrap_or("u64") {
        "u8" => 8,
        "u16" => 16,
        "u32" => 32,
        "u64" => 64,
        _ => 128,
    };
    if kv.get("huge") == "copy" {
        let combo = match (kv.get("rw"), kv.get("ww")) {
            ("u64", "u64") => 0,
            ("u32", _) => 1,
            ("u64", _) => 2,
            _ => 3,
        };
        check_copy(e, combo, kv.u64("n"), kv.get("path").parse().unwrap(), rep);
        return;
    }
    if kv.get("huge") == "write" {
        check_write(e, wbits, kv.u64("x"), rep);
    } else {
        let kb = if kv.get("reader") == "unbuf" { 0 } else { wbits };
        check_read(e, kb, kv.u64("x"), kv.get("mode").parse().unwrap(), rep);
    }
}
