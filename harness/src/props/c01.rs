//! C01 — bit writers emit one canonical byte image, independent of word size.
//!
//! Oracle: the bit-vector model. After every operation of a history the words
//! delivered so far (recording backend / shared sink) must be a prefix of the
//! model image; return values must be n / x+1 / pending bits; after the
//! finishing step (flush twice, drop, into_inner) the image must be the model
//! bits padded with zeros to the writer's word size.

use super::common::*;
use crate::drivers::*;
use crate::model::*;
use crate::report::{hex, Kv, Report};
use crate::rng::Rng;
use crate::{par_items, Ctx, Tier};

#[derive(Clone, Copy, Debug, PartialEq, Eq, Hash)]
pub enum Fin {
    Flush2,
    Drop,
    IntoInner,
}
impl Fin {
    fn name(self) -> &'static str {
        match self {
            Fin::Flush2 => "flush2",
            Fin::Drop => "drop",
            Fin::IntoInner => "into_inner",
        }
    }
    fn parse(s: &str) -> Fin {
        match s {
            "flush2" => Fin::Flush2,
            "drop" => Fin::Drop,
            _ => Fin::IntoInner,
        }
    }
}

#[derive(Clone, Debug)]
pub struct Case {
    pub cfg: WCfg,
    pub ops: Vec<WOp>,
    pub fin: Fin,
}

impl Case {
    fn to_kv(&self) -> String {
        format!("cfg={} fin={} ops={}", self.cfg.name(), self.fin.name(), wops_to_string(&self.ops))
    }
    fn from_kv(s: &str) -> Case {
        let kv = Kv::parse(s);
        Case { cfg: parse_wcfg(kv.get("cfg")), fin: Fin::parse(kv.get("fin")), ops: parse_wops(kv.get("ops")) }
    }
}

/// apply one op to the model; returns the expected return value
pub fn model_apply(bits: &mut Bits, e: En, wbits: usize, op: &WOp) -> usize {
    match op {
        WOp::Bits(v, n) => {
            push_bits(bits, e, *v, *n);
            *n
        }
        WOp::Unary(x) => {
            push_unary(bits, *x);
            *x as usize + 1
        }
        WOp::Flush => {
            let pending = bits.len() % wbits;
            if pending != 0 {
                bits.resize(bits.len() + wbits - pending, 0);
            }
            pending
        }
        WOp::Code(op, v) => {
            let before = bits.len();
            push_code(bits, e, op.code(), *v);
            bits.len() - before
        }
        WOp::IoWrite(b) => {
            for byte in b {
                push_bits(bits, e, *byte as u64, 8);
            }
            b.len()
        }
    }
}

fn apply(w: &mut dyn DynWriter, op: &WOp) -> Out<usize> {
    match op {
        WOp::Bits(v, n) => guard(|| w.write_bits(*v, *n)),
        WOp::Unary(x) => guard(|| w.write_unary(*x)),
        WOp::Flush => guard(|| w.flush()),
        WOp::Code(c, v) => guard(|| w.write_code(*c, *v)),
        WOp::IoWrite(b) => guard(|| w.io_write_all(b).unwrap_or(Err("no io::Write".into())).map(|_| b.len())),
    }
}

fn fill_class(fill: usize, w: usize) -> &'static str {
    if fill == 0 {
        "empty"
    } else if fill == w - 1 {
        "one-free"
    } else {
        "partial"
    }
}

pub fn check_case(c: &Case, rep: &mut Report) {
    let e = c.cfg.e;
    let wbits = c.cfg.w.bits();
    let wbytes = c.cfg.w.bytes();
    let mut h = make_writer(c.cfg);
    let mut bits: Bits = vec![];
    let cap_words: Option<usize> = match c.cfg.be {
        WBackend::Slice(n) => Some(n),
        WBackend::Rec(Some(n)) => Some(n),
        _ => None,
    };
    let sigbase = format!("{}|{}|{}", e.name(), c.cfg.w.name(), c.cfg.be.class());
    for (i, op) in c.ops.iter().enumerate() {
        let fill = bits.len() % wbits;
        let before_words = bits.len() / wbits;
        let mut mbits = bits.clone();
        let exp = model_apply(&mut mbits, e, wbits, op);
        let crosses = mbits.len() / wbits > before_words;
        // a writer with bounded capacity must fail exactly when the model needs a word it does not have
        let overflow = cap_words.map(|cap| (mbits.len() / wbits) > cap || (matches!(op, WOp::Flush) && mbits.len().div_ceil(wbits) > cap)).unwrap_or(false);
        let got = apply(h.w.as_mut(), op);
        rep.eval(1);
        if crosses || matches!(op, WOp::Flush) && fill != 0 {
            rep.case(&(e, c.cfg.w, c.cfg.be.class(), fill, op.kind(), match op { WOp::Bits(_, n) => *n as u64, WOp::Unary(x) => *x, _ => 0 }));
        }
        if overflow {
            // the overflowing write must report an error; earlier words intact
            match got {
                Out::Err(_) => {
                    rep.count("capacity_errors_observed", 1);
                    if let Some(d) = h.w.delivered() {
                        let img = image(&mbits, e, wbytes);
                        if d.len() > img.len() || d[..] != img[..d.len()] {
                            rep.violation(&format!("{}|capacity|delivered-altered", sigbase), || format!("after capacity error delivered words differ from model: {}", hex(&d)), || c.to_kv());
                        }
                    }
                }
                ref o => rep.violation(&format!("{}|capacity|{}", sigbase, o.class()), || format!("op #{} {} beyond capacity returned {}", i, op.to_string(), o.show()), || c.to_kv()),
            }
            // the drop of such a writer may panic (it unwraps a failing flush): not judged
            let _ = guard_v(|| h.w.drop_now());
            return;
        }
        match got {
            Out::Ok(r) if r == exp => {}
            ref o => {
                rep.violation(
                    &format!("{}|{}|ret|{}|fill-{}", sigbase, op.kind(), o.class(), fill_class(fill, wbits)),
                    || format!("op #{} {} at fill {} returned {} expected Ok({})", i, op.to_string(), fill, o.show(), exp),
                    || c.to_kv(),
                );
                if !o.is_ok() {
                    let _ = guard_v(|| h.w.drop_now());
                    return;
                }
            }
        }
        bits = mbits;
        if let Some(d) = h.w.delivered() {
            rep.eval(1);
            let img = image(&bits, e, wbytes);
            if d.len() > img.len() || d[..] != img[..d.len()] {
                rep.violation(
                    &format!("{}|{}|prefix|fill-{}", sigbase, op.kind(), fill_class(fill, wbits)),
                    || format!("after op #{} {} (fill before {}) delivered {} but model image is {}", i, op.to_string(), fill, hex(&d), hex(&img)),
                    || c.to_kv(),
                );
                let _ = guard_v(|| h.w.drop_now());
                return;
            }
            if matches!(op, WOp::Flush) && d.len() != img.len() {
                rep.violation(&format!("{}|flush|not-delivered", sigbase), || format!("after flush delivered {} bytes, model {}", d.len(), img.len()), || c.to_kv());
            }
        }
    }
    // finishing step
    let pending = bits.len() % wbits;
    let img = image(&bits, e, wbytes);
    rep.eval(1);
    if cap_words.map(|cap| bits.len().div_ceil(wbits) > cap).unwrap_or(false) {
        // the padding word does not fit: flush must report the error. What the
        // subsequent drop does (it unwraps a second failing flush) is not judged.
        let r = guard(|| h.w.flush());
        if !matches!(r, Out::Err(_)) {
            rep.violation(&format!("{}|capacity|flush|{}", sigbase, r.class()), || format!("flush beyond capacity returned {}", r.show()), || c.to_kv());
        } else {
            rep.count("capacity_errors_observed", 1);
        }
        let _ = guard_v(|| h.w.drop_now());
        return;
    }
    match c.fin {
        Fin::Flush2 => {
            let r1 = guard(|| h.w.flush());
            let d1 = h.w.delivered();
            let r2 = guard(|| h.w.flush());
            let d2 = h.w.delivered();
            if r1 != Out::Ok(pending) {
                rep.violation(&format!("{}|flush|ret|{}", sigbase, r1.class()), || format!("flush with {} pending bits returned {}", pending, r1.show()), || c.to_kv());
            }
            if r2 != Out::Ok(0) {
                rep.violation(&format!("{}|flush2|ret|{}", sigbase, r2.class()), || format!("second flush returned {}", r2.show()), || c.to_kv());
            }
            if let (Some(d1), Some(d2)) = (d1, d2) {
                if d1 != img {
                    rep.violation(&format!("{}|flush|image", sigbase), || format!("image after flush {} model {}", hex(&d1), hex(&img)), || c.to_kv());
                }
                if d2 != d1 {
                    rep.violation(&format!("{}|flush2|image", sigbase), || format!("second flush changed the image: {} -> {}", hex(&d1), hex(&d2)), || c.to_kv());
                }
            }
            // and the final content through into_inner as well
            if let Some(Out::Ok(b)) = Some(guard(|| h.w.into_bytes().unwrap_or(Err("none".into())))) {
                if b != img {
                    rep.violation(&format!("{}|flush2+into_inner|image", sigbase), || format!("image {} model {}", hex(&b), hex(&img)), || c.to_kv());
                }
            }
        }
        Fin::Drop => {
            let r = guard_v(|| h.w.drop_now());
            if let Out::Panic(p) = &r {
                rep.violation(&format!("{}|drop|panic[{}]", sigbase, panic_kind(p)), || format!("drop panicked: {}", p), || c.to_kv());
            }
            if let Some(d) = h.w.delivered() {
                if d != img {
                    rep.violation(&format!("{}|drop|image", sigbase), || format!("image after drop {} model {}", hex(&d), hex(&img)), || c.to_kv());
                }
            }
        }
        Fin::IntoInner => match guard(|| h.w.into_bytes().unwrap_or(Err("none".into()))) {
            Out::Ok(b) => {
                if b != img {
                    rep.violation(&format!("{}|into_inner|image", sigbase), || format!("image after into_inner {} model {}", hex(&b), hex(&img)), || c.to_kv());
                }
            }
            o => rep.violation(&format!("{}|into_inner|{}", sigbase, o.class()), || format!("into_inner: {}", o.show()), || c.to_kv()),
        },
    }
    rep.sample(|| format!("{} -> image {}", c.to_kv(), hex(&img)));
}

/// the full single-op alphabet
fn alphabet(wbits: usize, rng: &mut Rng, reduced: bool) -> Vec<WOp> {
    let mut v = vec![];
    let ns: Vec<usize> = if reduced { vec![0, 1, 7, 8, 9, 31, 32, 33, 63, 64] } else { (0..=64).collect() };
    for n in ns {
        let mask = if n == 64 { u64::MAX } else { (1u64 << n) - 1 };
        let pat = rng.next();
        let mut vals = vec![0u64, mask, pat & mask, pat, u64::MAX];
        if n > 0 {
            vals.push(1u64 << (n - 1));
        }
        if n < 64 {
            vals.push(1u64 << n); // a single dirty bit just above the field
        }
        if reduced {
            vals.truncate(4);
        }
        vals.dedup();
        for val in vals {
            v.push(WOp::Bits(val, n));
        }
    }
    let xs: Vec<u64> = if reduced {
        vec![0, 1, (wbits - 2) as u64, (wbits - 1) as u64, wbits as u64, (2 * wbits - 1) as u64, (2 * wbits) as u64, (3 * wbits + 1) as u64]
    } else {
        (0..=(3 * wbits + 1) as u64).chain([1000u64].into_iter()).collect()
    };
    for x in xs {
        v.push(WOp::Unary(x));
    }
    v.push(WOp::Flush);
    // bytes written through the std::io::Write view are bits of the stream like any others
    for len in if reduced { vec![8usize] } else { vec![1usize, 7, 8, 9, 16, 17, 24] } {
        v.push(WOp::IoWrite((0..len).map(|i| (rng.next() as u8) | (i as u8 & 1)).collect()));
    }
    v
}

fn fill_ops(fill: usize, rng: &mut Rng) -> Vec<WOp> {
    // reach a given fill level with one or two writes
    let mut ops = vec![];
    let mut left = fill;
    while left > 0 {
        let n = left.min(64);
        let mask = if n == 64 { u64::MAX } else { (1u64 << n) - 1 };
        ops.push(WOp::Bits(rng.next() & mask, n));
        left -= n;
    }
    ops
}

pub fn random_ops(rng: &mut Rng, len: usize, wbits: usize, with_flush: bool) -> Vec<WOp> {
    random_ops_io(rng, len, wbits, with_flush, false)
}

/// like random_ops, optionally with byte writes through the std::io::Write view
pub fn random_ops_io(rng: &mut Rng, len: usize, wbits: usize, with_flush: bool, with_io: bool) -> Vec<WOp> {
    let mut ops = vec![];
    for _ in 0..len {
        let r = rng.below(100);
        if r < 55 {
            let n = if rng.chance(1, 4) { *rng.pick(&[0usize, 1, 8, 63, 64, wbits.min(64)]) } else { rng.below(65) as usize };
            let mut v = rng.next();
            if rng.chance(1, 2) && n < 64 {
                v &= (1u64 << n) - 1; // clean half of the time
            }
            match rng.below(8) {
                0 => v = 0,
                1 => v = u64::MAX,
                _ => {}
            }
            ops.push(WOp::Bits(v, n));
        } else if r < 92 {
            let x = if rng.chance(1, 5) { rng.below(3 * wbits as u64 + 3) } else { rng.log_uniform(7) };
            ops.push(WOp::Unary(x));
        } else if r < 95 && with_io {
            let len = *rng.pick(&[0usize, 1, 3, 8, 9, 16, 17, 25]);
            ops.push(WOp::IoWrite((0..len).map(|_| rng.next() as u8).collect()));
        } else if with_flush {
            ops.push(WOp::Flush);
        } else {
            ops.push(WOp::Unary(0));
        }
    }
    ops
}

pub fn run(ctx: &Ctx) -> Report {
    let mut work: Vec<(En, Option<WWord>)> = vec![];
    for e in En::BOTH {
        for w in WWord::ALL {
            work.push((e, Some(w)));
        }
        work.push((e, None));
    }
    let mut rep = par_items(ctx, "C01", &work, |&(e, w), rep| {
        let w = match w {
            Some(w) => w,
            None => {
                cross_word_size(ctx, e, rep);
                return;
            }
        };
        let wbits = w.bits();
        // ---- (0) one unary code of more than 2^32 zeros, delivered to a counting sparse backend ----
        if ctx.tier != Tier::Tiny {
            let xs: Vec<u64> = if ctx.tier == Tier::Thorough { vec![(1 << 32) + 3, (1 << 32) - 1, (1 << 33) + 77] } else { vec![(1 << 32) + 3 + (ctx.seed % 64)] };
            for x in xs {
                super::huge::check_write(e, wbits, x, rep);
            }
        }
        let mut rng = Rng::derive(ctx.seed, 0xC01 + wbits as u64 + if e == En::BE { 0 } else { 1000 });
        let backends: Vec<WBackend> = vec![WBackend::Rec(None), WBackend::VecOwned, WBackend::Slice(64), WBackend::AdVec, WBackend::AdSink, WBackend::AdShort(3), WBackend::VecDirty];
        // ---- (1) exhaustive: every fill level x every op x second op x finish ----
        let fills: Vec<usize> = match ctx.tier {
            Tier::Thorough => (0..wbits).collect(),
            Tier::Quick => {
                if wbits <= 32 {
                    (0..wbits).collect()
                } else {
                    let mut f: Vec<usize> = vec![0, 1, 2, 7, 8, 9, 31, 32, 33, 62, 63, 64, 65, wbits - 3, wbits - 2, wbits - 1];
                    f.retain(|x| *x < wbits);
                    f.sort_unstable();
                    f.dedup();
                    f
                }
            }
            Tier::Tiny => vec![0, 1, wbits - 1],
        };
        let alpha1 = alphabet(wbits, &mut rng, ctx.tier == Tier::Tiny);
        let alpha2 = alphabet(wbits, &mut rng, true);
        let second: Vec<Option<WOp>> = match ctx.tier {
            Tier::Thorough => std::iter::once(None).chain(alpha2.iter().cloned().map(Some)).collect(),
            Tier::Quick => vec![None, Some(WOp::Bits(rng.next(), 64)), Some(WOp::Bits(1, 1)), Some(WOp::Unary(wbits as u64)), Some(WOp::Unary(0)), Some(WOp::Bits(rng.next(), 13))],
            Tier::Tiny => vec![None, Some(WOp::Bits(5, 3))],
        };
        for (bi, be) in backends.iter().enumerate() {
            // the full product on the recording backend; the library backends get the
            // full first-op alphabet with one continuation
            let seconds: &[Option<WOp>] = if bi == 0 { &second } else { &second[..second.len().min(2)] };
            let fins: Vec<Fin> = match be {
                WBackend::Rec(_) | WBackend::AdSink => vec![Fin::Flush2, Fin::Drop, Fin::IntoInner],
                _ => vec![Fin::IntoInner, Fin::Flush2],
            };
            for &fill in &fills {
                let pre = fill_ops(fill, &mut rng);
                for (oi, op1) in alpha1.iter().enumerate() {
                    for (si, op2) in seconds.iter().enumerate() {
                        let mut ops = pre.clone();
                        ops.push(op1.clone());
                        if let Some(o) = op2 {
                            ops.push(o.clone());
                        }
                        let fin = fins[(oi + si + fill) % fins.len()];
                        check_case(&Case { cfg: WCfg { e, w, be: *be }, ops, fin }, rep);
                    }
                }
            }
        }
        if ctx.tier != Tier::Tiny && (ctx.tier == Tier::Thorough || wbits <= 32) {
            rep.exhaustive(&format!("{}/{}: every fill level 0..{} x full op alphabet ({} ops) x continuation set", e.name(), w.name(), wbits, alpha1.len()));
        }
        // ---- (2) capacity: fixed slice / bounded recording backend too small ----
        for cap in [0usize, 1, 2, 3] {
            for be in [WBackend::Slice(cap), WBackend::Rec(Some(cap))] {
                for _ in 0..ctx.pick(2, 20, 200) {
                    let ops = random_ops(&mut rng, 12, wbits, true);
                    check_case(&Case { cfg: WCfg { e, w, be }, ops, fin: Fin::IntoInner }, rep);
                }
            }
        }
        // ---- (3) random histories, all backends, cross-word-size comparison implied by the common model ----
        let nhist = ctx.pick(3, 3000, 30000);
        for hix in 0..nhist {
            let len = 1 + rng.below(ctx.pick(10, 60, 200)) as usize;
            let ops = random_ops_io(&mut rng, len, wbits, hix % 3 == 0, true);
            for be in &backends {
                let fins: &[Fin] = match be {
                    WBackend::Rec(_) | WBackend::AdSink => &[Fin::Flush2, Fin::Drop, Fin::IntoInner],
                    _ => &[Fin::IntoInner],
                };
                let fin = fins[hix % fins.len()];
                check_case(&Case { cfg: WCfg { e, w, be: *be }, ops: ops.clone(), fin }, rep);
            }
        }
        // ---- (4) borrowed storage and Drop: &mut Vec<W> and &mut [W] ----
        borrowed::run(e, w, &mut rng, ctx, rep);
    });
    if rep.evaluations < 1000 && ctx.tier != Tier::Tiny {
        rep.inconclusive("too few evaluations".into());
    }
    rep
}


/// (5) explicit cross-word-size equality of the real images (no model involved)
fn cross_word_size(ctx: &Ctx, e: En, rep: &mut Report) {
    // ---- (5) explicit cross-word-size equality of the real images (no model involved) ----
    let mut rng = Rng::derive(ctx.seed, 0xC01FFFF + (e == En::LE) as u64);
    {
        for _ in 0..ctx.pick(2, 2000, 20000) {
            let l = 1 + rng.below(40) as usize;
            let ops = random_ops(&mut rng, l, 64, false);
            let mut images: Vec<(WWord, Vec<u8>)> = vec![];
            for w in WWord::ALL {
                let mut h = make_writer(WCfg { e, w, be: WBackend::VecOwned });
                let mut ok = true;
                for op in &ops {
                    if !apply(h.w.as_mut(), op).is_ok() {
                        ok = false;
                    }
                }
                if let (true, Out::Ok(b)) = (ok, guard(|| h.w.into_bytes().unwrap())) {
                    images.push((w, b));
                }
            }
            rep.eval(1);
            let nbits: usize = ops.iter().map(|o| match o { WOp::Bits(_, n) => *n, WOp::Unary(x) => *x as usize + 1, _ => 0 }).sum();
            let nbytes = nbits.div_ceil(8);
            for (w, img) in &images {
                let a = &images[0].1;
                if img.len() < nbytes || a.len() < nbytes || img[..nbytes] != a[..nbytes] || img[nbytes..].iter().any(|b| *b != 0) {
                    rep.violation(
                        &format!("{}|cross-word-size|{}", e.name(), w.name()),
                        || format!("image with {} words {} differs from u8 image {}", w.name(), hex(img), hex(a)),
                        || format!("cfg={}/{}/vec fin=into_inner ops={}", e.name(), w.name(), wops_to_string(&ops)),
                    );
                }
            }
            rep.count("cross_word_size_comparisons", images.len() as u64);
        }
    }
}

pub fn replay(case: &str, rep: &mut Report) {
    if case.starts_with("huge=") {
        return super::huge::replay(case, rep);
    }
    check_case(&Case::from_kv(case), rep);
}

/// Writers over borrowed storage, finished by Drop (the `&mut Vec` idiom of the docs).
mod borrowed {
    use super::*;
    use dsi_bitstream::prelude::*;

    /// An operation on a writer that is about to be dropped: if it fails, the writer is leaked before
    /// panicking (its Drop flushes and unwraps: a second panic during unwinding would abort the process).
    macro_rules! ck {
        ($w:ident, $e:expr) => {
            match $e {
                Ok(_) => {}
                Err(e) => {
                    std::mem::forget($w);
                    panic!("writer operation failed: {}", e);
                }
            }
        };
    }

    macro_rules! run_borrowed {
        ($E:ty, $W:ty, $e:expr, $ops:expr, $rep:expr) => {{
            let e: En = $e;
            let ops: &[WOp] = $ops;
            let wbits = <$W as crate::backends::HWord>::NBITS;
            let mut bits: Bits = vec![];
            for op in ops {
                model_apply(&mut bits, e, wbits, op);
            }
            let img = image(&bits, e, wbits / 8);
            // &mut Vec<W>, finished by drop
            let mut v: Vec<$W> = vec![];
            let r = guard_v(|| {
                let mut w = BufBitWriter::<$E, _>::new(MemWordWriterVec::new(&mut v));
                for op in ops {
                    match op {
                        WOp::Bits(x, n) => { ck!(w, w.write_bits(*x, *n)); }
                        WOp::Unary(x) => { ck!(w, w.write_unary(*x)); }
                        _ => { ck!(w, BitWrite::flush(&mut w)); }
                    }
                }
                drop(w);
            });
            $rep.eval(1);
            let got = crate::backends::bytes_from_words(&v);
            if r.is_panic() || got != img {
                $rep.violation(&format!("{}|{}|borrowed-vec|drop", e.name(), stringify!($W)), || format!("{} image {} model {}", r.show(), hex(&got), hex(&img)), || {
                    format!("cfg={}/{}/vec fin=drop ops={}", e.name(), stringify!($W), wops_to_string(ops))
                });
            }
            // &mut [W] large enough, finished by drop
            let mut s: Vec<$W> = vec![<$W>::MAX; img.len() / (wbits / 8) + 2];
            let r = guard_v(|| {
                let mut w = BufBitWriter::<$E, _>::new(MemWordWriterSlice::new(&mut s[..]));
                for op in ops {
                    match op {
                        WOp::Bits(x, n) => { ck!(w, w.write_bits(*x, *n)); }
                        WOp::Unary(x) => { ck!(w, w.write_unary(*x)); }
                        _ => { ck!(w, BitWrite::flush(&mut w)); }
                    }
                }
                drop(w);
            });
            $rep.eval(1);
            let got = crate::backends::bytes_from_words(&s);
            if r.is_panic() || got[..img.len()] != img[..] || got[img.len()..].iter().any(|b| *b != 0xff) {
                $rep.violation(&format!("{}|{}|borrowed-slice|drop", e.name(), stringify!($W)), || format!("{} image {} model {}", r.show(), hex(&got), hex(&img)), || {
                    format!("cfg={}/{}/slice64 fin=drop ops={}", e.name(), stringify!($W), wops_to_string(ops))
                });
            }
            // an owned Box<[W]> (a backend that owns a Box), finished by into_inner: under the interpreter
            // this is what exercises the unsafe block of into_inner with a Unique pointer inside the backend
            let boxed: Box<[$W]> = vec![<$W>::MAX; img.len() / (wbits / 8) + 2].into_boxed_slice();
            let r = guard_v(|| {
                let mut w = BufBitWriter::<$E, _>::new(MemWordWriterSlice::new(boxed));
                for op in ops {
                    match op {
                        WOp::Bits(x, n) => { ck!(w, w.write_bits(*x, *n)); }
                        WOp::Unary(x) => { ck!(w, w.write_unary(*x)); }
                        _ => { ck!(w, BitWrite::flush(&mut w)); }
                    }
                }
                w.into_inner().unwrap().into_inner()
            });
            $rep.eval(1);
            let ok = match &r {
                Out::Ok(b) => {
                    let got = crate::backends::bytes_from_words(&b[..]);
                    got[..img.len()] == img[..] && got[img.len()..].iter().all(|x| *x == 0xff)
                }
                _ => false,
            };
            if !ok {
                $rep.violation(&format!("{}|{}|boxed-slice|into_inner", e.name(), stringify!($W)), || format!("{} model {}", r.show(), hex(&img)), || {
                    format!("cfg={}/{}/slice64 fin=into_inner ops={}", e.name(), stringify!($W), wops_to_string(ops))
                });
            }
        }};
    }

    pub fn run(e: En, w: WWord, rng: &mut Rng, ctx: &Ctx, rep: &mut Report) {
        for _ in 0..ctx.pick(2, 600, 5000) {
            let l = 1 + rng.below(30) as usize;
            let ops = random_ops(rng, l, w.bits(), true);
            match (e, w) {
                (En::BE, WWord::U8) => run_borrowed!(BE, u8, e, &ops, rep),
                (En::BE, WWord::U16) => run_borrowed!(BE, u16, e, &ops, rep),
                (En::BE, WWord::U32) => run_borrowed!(BE, u32, e, &ops, rep),
                (En::BE, WWord::U64) => run_borrowed!(BE, u64, e, &ops, rep),
                (En::BE, WWord::U128) => run_borrowed!(BE, u128, e, &ops, rep),
                (En::LE, WWord::U8) => run_borrowed!(LE, u8, e, &ops, rep),
                (En::LE, WWord::U16) => run_borrowed!(LE, u16, e, &ops, rep),
                (En::LE, WWord::U32) => run_borrowed!(LE, u32, e, &ops, rep),
                (En::LE, WWord::U64) => run_borrowed!(LE, u64, e, &ops, rep),
                (En::LE, WWord::U128) => run_borrowed!(LE, u128, e, &ops, rep),
            }
        }
    }
}
