//! C07 — reported bit positions and seeks are exact for every history.

use super::c02::fill_prefix;
use super::common::*;
use super::diag;
use super::readhist::*;
use crate::drivers::*;
use crate::model::*;
use crate::report::Report;
use crate::rng::{Pattern, Rng};
use crate::{par_items, Ctx, Tier};

pub fn code_ops_for(kind: RKind, rep: &mut Report) -> Vec<CodeOp> {
    let all = vec![
        CodeOp::Std(Code::Gamma),
        CodeOp::GammaP(true),
        CodeOp::GammaP(false),
        CodeOp::Std(Code::Delta),
        CodeOp::DeltaP(true, true),
        CodeOp::DeltaP(true, false),
        CodeOp::DeltaP(false, true),
        CodeOp::DeltaP(false, false),
        CodeOp::Zeta3Def,
        CodeOp::Zeta3P(true),
        CodeOp::Zeta3P(false),
        CodeOp::Std(Code::Zeta(2)),
        CodeOp::Std(Code::Zeta(5)),
        CodeOp::Std(Code::Omega),
        CodeOp::Std(Code::Pi(2)),
        CodeOp::Std(Code::Rice(3)),
        CodeOp::Std(Code::Golomb(5)),
        CodeOp::Std(Code::ExpGolomb(2)),
        CodeOp::Std(Code::MinBin(11)),
        CodeOp::Std(Code::VByteBe),
        CodeOp::Std(Code::VByteLe),
        CodeOp::Std(Code::Unary),
    ];
    let mut v = vec![];
    for op in all {
        match diag::tables_allowed(kind, &op) {
            Ok(true) => v.push(op),
            Ok(false) => rep.note(format!("{}: {} not exercised (construction printed the look-ahead diagnostic)", kind.name(), op.name())),
            Err(e) => {
                rep.inconclusive(format!("diagnostics probe: {}", e));
            }
        }
    }
    v
}

pub fn run(ctx: &Ctx) -> Report {
    let mut work: Vec<(En, RKind)> = vec![];
    for e in En::BOTH {
        for k in RKind::ALL {
            work.push((e, k));
        }
    }
    let rep = par_items(ctx, "C07", &work, |&(e, kind), rep| {
        let w = kind.word_bits();
        let wb = w / 8;
        let mut rng = Rng::derive(ctx.seed, 0xC07 + w as u64 * 11 + kind.buffered() as u64 + if e == En::BE { 0 } else { 7000 });
        // ---- (0) positions and seeks beyond 2^32 bits (sparse backend, nothing materialised) ----
        if ctx.tier != Tier::Tiny {
            for x in [(1u64 << 32) + 3 + (ctx.seed % 64), (1 << 40) + 12345, (1 << 56) + 9] {
                super::huge::check_read(e, if kind.buffered() { w } else { 0 }, x, 2, rep);
            }
        }
        let cops = if ctx.tier == Tier::Tiny { vec![CodeOp::Std(Code::Gamma)] } else { code_ops_for(kind, rep) };
        // ---- (1) every seek target of small streams, from several buffer states, followed by every op ----
        let word_counts: Vec<usize> = match (ctx.tier, w) {
            (Tier::Tiny, _) => vec![2],
            (Tier::Quick, 8) => vec![1, 2, 3, 5, 9],
            (Tier::Quick, _) => vec![1, 2, 3],
            (Tier::Thorough, 8) => (1..=12).collect(),
            (Tier::Thorough, _) => (1..=6).collect(),
        };
        let states: Vec<Vec<ROp>> = if kind.buffered() {
            let fs: Vec<usize> = match ctx.tier {
                Tier::Thorough => (0..2 * w).collect(),
                Tier::Quick => vec![0, 1, w / 2, w - 1, w, w + 1, 2 * w - 1],
                Tier::Tiny => vec![1, 2 * w - 1],
            };
            fs.into_iter().map(|f| fill_prefix(f, w)).collect()
        } else {
            vec![vec![], vec![ROp::Skip(1)], vec![ROp::Read(37)], vec![ROp::Skip(64)]]
        };
        let mut after: Vec<ROp> = vec![
            ROp::Read(0),
            ROp::Read(1),
            ROp::Read(w.min(64) - 1),
            ROp::Read(w.min(64)),
            ROp::Read((w + 1).min(64)),
            ROp::Read(64),
            ROp::Peek(1),
            ROp::Peek(kind.peek_limit()),
            ROp::Skip(w + 1),
            ROp::Unary,
            ROp::IoRead(1),
            ROp::IoRead(3),
            ROp::IoRead(9),
            ROp::Pos,
        ];
        for c in &cops {
            after.push(ROp::Code(*c));
        }
        if ctx.tier == Tier::Tiny {
            after = vec![ROp::Read(w.min(64)), ROp::Peek(kind.peek_limit()), ROp::Unary, ROp::IoRead(3), ROp::Code(CodeOp::Std(Code::Gamma))];
        }
        for &nw in &word_counts {
            let img = random_image(&mut rng, if nw % 2 == 1 { Pattern::Random } else { Pattern::ZeroRuns }, nw * wb, e);
            let len = nw * w;
            let pstep = if ctx.tier == Tier::Tiny { 7 } else { 1 };
            for p in (0..=len).step_by(pstep) {
                for (si, st) in states.iter().enumerate() {
                    // the pre-seek history must itself be in domain: keep only what fits
                    for (bi, be) in RBackend::ALL.iter().enumerate() {
                        if ctx.tier != Tier::Thorough && (bi + si + p) % 4 != 0 && bi >= 2 {
                            continue;
                        }
                        if ctx.tier == Tier::Tiny && (bi + p) % 8 != 0 {
                            continue;
                        }
                        let cfg = RCfg { e, kind, be: *be };
                        for (ai, a) in after.iter().enumerate() {
                            if ctx.tier == Tier::Quick && (ai + p + si) % 3 != 0 && ai >= 14 {
                                continue; // code reads: a third of the grid each, the rest always
                            }
                            let mut ops = st.clone();
                            ops.push(ROp::Pos);
                            ops.push(ROp::Seek(p as u64));
                            ops.push(ROp::Pos);
                            ops.push(a.clone());
                            ops.push(ROp::Pos);
                            ops.push(ROp::Read(20));
                            ops.push(ROp::Pos);
                            check("C07", &RCase { cfg, image: img.clone(), ops }, rep, false);
                        }
                    }
                }
            }
            rep.exhaustive(&format!("{}/{}: every seek target 0..={} of a {}-word stream", e.name(), kind.name(), len, nw));
        }
        // ---- (1b) byte sources whose length is not a multiple of the word: a read that runs into the
        // partial tail fails and leaves the byte source at its unaligned end; every seek afterwards
        // must still land exactly (the failed read itself is only required not to panic) ----
        if wb > 1 && ctx.tier != Tier::Tiny {
            let nws: Vec<usize> = if ctx.tier == Tier::Thorough { vec![1, 2, 3, 5] } else { vec![1, 3] };
            for &nw in &nws {
                let len = nw * w;
                for tail in 1..wb {
                    if ctx.tier == Tier::Quick && wb == 8 && tail % 3 == 2 {
                        continue;
                    }
                    let mut img = random_image(&mut rng, Pattern::Random, nw * wb, e);
                    for _ in 0..tail {
                        img.push(0xA5 ^ rng.below(256) as u8);
                    }
                    let pres: Vec<Vec<ROp>> = vec![vec![ROp::Skip(len)], vec![ROp::Skip(len - 1)], vec![ROp::Skip(len - w + 1)], vec![ROp::Read(1), ROp::Skip(len - w)], vec![ROp::Seek(len as u64)]];
                    for be in [RBackend::AdCursor, RBackend::AdBufReader] {
                        let cfg = RCfg { e, kind, be };
                        for (pi, pre) in pres.iter().enumerate() {
                            for p in 0..=len {
                                let a = &after[(p + pi + tail) % after.len()];
                                let mut ops = pre.clone();
                                ops.push(ROp::PastEnd);
                                ops.push(ROp::Seek(p as u64));
                                ops.push(ROp::Pos);
                                ops.push(a.clone());
                                ops.push(ROp::Pos);
                                ops.push(ROp::Read(20));
                                ops.push(ROp::Pos);
                                // a second failed read and seek: the misplacement must not accumulate either
                                ops.push(ROp::Seek(len as u64));
                                ops.push(ROp::PastEnd);
                                ops.push(ROp::Seek((len - p) as u64));
                                ops.push(ROp::Pos);
                                ops.push(ROp::Read(9));
                                ops.push(ROp::Pos);
                                check("C07", &RCase { cfg, image: img.clone(), ops }, rep, false);
                                rep.count("seeks_after_failed_read_on_unaligned_source", 2);
                            }
                        }
                    }
                }
            }
        }
        // ---- (2) random interleavings of reads/peeks/skips/code reads/byte reads/seeks, position checked after every step ----
        let o = GenOpts { seeks: true, io: true, codes: true, clones: true, pos: true, max_read_code_len: 200 };
        let nhist = ctx.pick(3, 2000, 15000);
        for hix in 0..nhist {
            let pat = [Pattern::Random, Pattern::ZeroRuns, Pattern::Sparse, Pattern::Random, Pattern::Ones][hix % 5];
            let nb = ((4 + rng.below(60) as usize) / wb + 1) * wb;
            let img = random_image(&mut rng, pat, nb, e);
            for be in RBackend::ALL {
                let cfg = RCfg { e, kind, be };
                let len = 2 + rng.below(ctx.pick(8, 30, 80)) as usize;
                let mut ops = vec![];
                let mut img = img.clone();
                let aligned = img.len();
                if wb > 1 && matches!(be, RBackend::AdCursor | RBackend::AdBufReader) && hix % 2 == 1 {
                    for _ in 0..1 + rng.below(wb as u64 - 1) {
                        img.push(rng.below(256) as u8);
                    }
                }
                for op in gen_history(&mut rng, cfg, &img[..aligned], len, &o, &cops) {
                    let is_pos = op == ROp::Pos;
                    ops.push(op);
                    if !is_pos {
                        ops.push(ROp::Pos);
                    }
                }
                check("C07", &RCase { cfg, image: img.clone(), ops }, rep, false);
            }
        }
    });
    rep
}

pub fn replay(case: &str, rep: &mut Report) {
    if case.starts_with("huge=") {
        return super::huge::replay(case, rep);
    }
    check("C07", &RCase::from_kv(case), rep, false);
}
