//! C18 — byte-level VByte functions agree with the bit-stream codes and are complete.

use super::common::*;
use crate::backends::{Fault, FaultyIo};
use crate::drivers::*;
use crate::model::*;
use crate::report::{hex, unhex, Kv, Report};
use crate::rng::Rng;
use crate::{par_items, Ctx, Tier};
use dsi_bitstream::prelude::*;

fn io_write(v: u64, big: bool, generic: bool) -> Out<(Vec<u8>, usize)> {
    guard(|| {
        let mut out: Vec<u8> = vec![];
        let n = match (big, generic) {
            (true, false) => vbyte_write_be(v, &mut out),
            (false, false) => vbyte_write_le(v, &mut out),
            (true, true) => vbyte_write::<BE, _>(v, &mut out),
            (false, true) => vbyte_write::<LE, _>(v, &mut out),
        }
        .map_err(|e| e.to_string())?;
        Ok((out, n))
    })
}

fn io_read(bytes: &[u8], big: bool, generic: bool) -> Out<(u64, usize)> {
    guard(|| {
        let mut cur = std::io::Cursor::new(bytes.to_vec());
        let v = match (big, generic) {
            (true, false) => vbyte_read_be(&mut cur),
            (false, false) => vbyte_read_le(&mut cur),
            (true, true) => vbyte_read::<BE, _>(&mut cur),
            (false, true) => vbyte_read::<LE, _>(&mut cur),
        }
        .map_err(|e| e.to_string())?;
        Ok((v, cur.position() as usize))
    })
}

/// The io functions over byte streams that behave as std::io allows them to: at most `m` bytes per
/// call, an Interrupted now and then, a sink with too little room, a hard error. The code must come
/// out whole (or an error must be reported), and decoding must consume exactly the code.
pub fn check_hostile_io(v: u64, ci: usize, rep: &mut Report) {
    for big in [true, false] {
        let name = if big { "be" } else { "le" };
        let model = vbyte_bytes(v, big);
        let kvf = || format!("kind=hostile v={} ci={}", v, ci);
        let wr = |io: &mut dyn std::io::Write, generic: bool| -> Out<usize> {
            guard(|| {
                let mut io = io;
                match (big, generic) {
                    (true, false) => vbyte_write_be(v, &mut io),
                    (false, false) => vbyte_write_le(v, &mut io),
                    (true, true) => vbyte_write::<BE, _>(v, &mut io),
                    (false, true) => vbyte_write::<LE, _>(v, &mut io),
                }
                .map_err(|e| format!("{:?}", e.kind()))
            })
        };
        for m in 1..=3usize {
            for (si, sched) in [vec![], vec![Fault::Interrupted], vec![Fault::Limit(1), Fault::Interrupted, Fault::Limit(2)], vec![Fault::Limit(m), Fault::Limit(1), Fault::Interrupted, Fault::Interrupted]].iter().enumerate() {
                let generic = (ci + si) % 2 == 1;
                // ---- write: short writes and interruptions are not errors: the whole code must arrive ----
                let mut sink = FaultyIo::new(vec![0xEE], sched.clone(), Fault::Limit(m));
                sink.pos = 1;
                let r = wr(&mut sink, generic);
                rep.eval(1);
                let mut exp = vec![0xEE];
                exp.extend_from_slice(&model);
                match &r {
                    Out::Ok(n) if *n == model.len() && sink.data == exp => {}
                    Out::Err(_) if sched.is_empty() && m >= 1 => rep.violation(&format!("{}|io-write-short|spurious-error", name), || format!("vbyte_write_{}({}) over a sink taking {} bytes per call: {}", name, v, m, r.show()), kvf),
                    Out::Err(_) => {
                        // an error was reported: nothing is claimed about the sink then
                        rep.count("hostile_writes_reporting_an_error", 1);
                    }
                    o => rep.violation(
                        &format!("{}|io-write-short|{}", name, if o.is_ok() { "truncated-or-miscounted" } else { "panic" }),
                        || format!("vbyte_write_{}({}) over a sink taking at most {} bytes per call (schedule {:?}) returned {} and the sink holds {}; the code is {}", name, v, m, sched, o.show(), hex(&sink.data[1..]), hex(&model)),
                        kvf,
                    ),
                }
                // ---- read: short reads and interruptions ----
                let mut data = model.clone();
                data.extend_from_slice(&[0x81, 0x7f, 0x00]);
                let mut src = FaultyIo::new(data, sched.clone(), Fault::Limit(m));
                let rr = guard(|| {
                    match (big, generic) {
                        (true, false) => vbyte_read_be(&mut src),
                        (false, false) => vbyte_read_le(&mut src),
                        (true, true) => vbyte_read::<BE, _>(&mut src),
                        (false, true) => vbyte_read::<LE, _>(&mut src),
                    }
                    .map_err(|e| format!("{:?}", e.kind()))
                });
                rep.eval(1);
                if rr != Out::Ok(v) || src.pos != model.len() {
                    rep.violation(
                        &format!("{}|io-read-short|{}", name, if rr.is_ok() { "wrong-value-or-consumption".into() } else { rr.class() }),
                        || format!("vbyte_read_{} of {} through a source giving at most {} bytes per call (schedule {:?}) = {} having consumed {} bytes; expected {} and {} bytes", name, hex(&model), m, sched, rr.show(), src.pos, v, model.len()),
                        kvf,
                    );
                }
            }
        }
        // ---- a sink with less room than the code, and a hard error: must be reported, never Ok ----
        for room in 0..model.len() {
            let mut buf = vec![0u8; room];
            let r = {
                let mut cur = std::io::Cursor::new(&mut buf[..]);
                wr(&mut cur, false)
            };
            rep.eval(1);
            if r.is_ok() {
                rep.violation(&format!("{}|io-write-no-room|reported-ok", name), || format!("vbyte_write_{}({}) into a {}-byte buffer returned {} although the code has {} bytes", name, v, room, r.show(), model.len()), kvf);
            }
            let mut sched = vec![Fault::Limit(1); room];
            sched.push(Fault::Hard);
            let mut sink = FaultyIo::new(vec![], sched, Fault::Limit(16));
            let r = wr(&mut sink, true);
            rep.eval(1);
            // the error must surface unless the whole code had been accepted before it struck
            if r.is_ok() && sink.data != model {
                rep.violation(&format!("{}|io-write-hard-error|swallowed", name), || format!("vbyte_write_{}({}) with a hard error after {} bytes returned {}; sink holds {}", name, v, room, r.show(), hex(&sink.data)), kvf);
            }
        }
        if model.len() >= 2 {
            rep.case(&("hostile", big, model.len(), v & 0xffff));
        }
    }
}

pub fn check_value(v: u64, ci: usize, rep: &mut Report) {
    for big in [true, false] {
        let name = if big { "be" } else { "le" };
        let code = if big { Code::VByteBe } else { Code::VByteLe };
        let model = vbyte_bytes(v, big);
        let kvf = || format!("kind=value v={} ci={}", v, ci);
        // io functions, named and generic entry points
        let a = io_write(v, big, false);
        let g = io_write(v, big, true);
        rep.eval(3);
        if a != Out::Ok((model.clone(), model.len())) {
            rep.violation(&format!("{}|io-write|{}", name, if a.is_ok() { "wrong-bytes".into() } else { a.class() }), || format!("vbyte_write_{}({}) = {:?} but the complete 7-bit-group code is {}", name, v, a, hex(&model)), kvf);
            continue;
        }
        if g != a {
            rep.violation(&format!("{}|generic-write-selects-other-variant", name), || format!("vbyte_write::<{}>({}) = {:?} but vbyte_write_{} = {:?}", name.to_uppercase(), v, g, name, a), kvf);
        }
        // lengths
        let bl = guard_v(|| byte_len_vbyte(v));
        let bitl = guard_v(|| bit_len_vbyte(v));
        if bl != Out::Ok(model.len()) || bitl != Out::Ok(8 * model.len()) {
            rep.violation("length-function", || format!("byte_len_vbyte({}) = {} / bit_len_vbyte = {} but the code has {} bytes", v, bl.show(), bitl.show(), model.len()), kvf);
        }
        // decode
        for generic in [false, true] {
            let r = io_read(&model, big, generic);
            rep.eval(1);
            if r != Out::Ok((v, model.len())) {
                rep.violation(
                    &format!("{}|io-read|{}{}", name, if generic { "generic-" } else { "" }, if r.is_ok() { "wrong-value".into() } else { r.class() }),
                    || format!("vbyte_read{}({}) = {} expected ({}, {} bytes consumed)", if generic { "::<E>" } else { "" }, hex(&model), r.show(), v, model.len()),
                    kvf,
                );
            }
        }
        // bit-stream code at a byte-aligned position: same bytes, whatever the stream endianness and word
        for e in En::BOTH {
            let ww = WWord::ALL[(ci + big as usize) % 5];
            let mut h = make_writer(WCfg { e, w: ww, be: WBackend::VecOwned });
            // bytes before the code: also whole 64-bit words, so that the code starts on a word boundary
            // of every reader, and the position is reached by skipping, seeking or reading
            let lead = [0usize, 1, 2, 8, 16, 7, 9][ci % 7];
            for i in 0..lead {
                let _ = guard(|| h.w.write_bits(0xC0 + i as u64, 8));
            }
            let ret = guard(|| h.w.write_code(CodeOp::Std(code), v));
            let bytes = guard(|| h.w.into_bytes().unwrap());
            rep.eval(1);
            let ok = match (&ret, &bytes) {
                (Out::Ok(r), Out::Ok(b)) => *r == 8 * model.len() && b.len() >= lead + model.len() && b[lead..lead + model.len()] == model[..] && b[lead + model.len()..].iter().all(|x| *x == 0),
                _ => false,
            };
            if !ok {
                rep.violation(
                    &format!("{}|bitstream-write|{}", name, e.name()),
                    || format!("write_vbyte_{}({}) on a {} {} stream after {} bytes: returned {} bytes {:?}; io function wrote {}", name, v, e.name(), ww.name(), lead, ret.show(), bytes.clone().ok().map(|b| hex(&b)), hex(&model)),
                    kvf,
                );
                continue;
            }
            // and read it back with a bit-stream reader
            let mut img = bytes.ok().unwrap();
            img.resize(img.len().div_ceil(16) * 16 + 16, 0);
            let kind = RKind::ALL[(ci + e as usize) % 5];
            let be = RBackend::ALL[ci % RBackend::ALL.len()];
            let mut r = make_reader(RCfg { e, kind, be }, &img);
            match (ci / 7) % 4 {
                0 => {
                    let _ = guard(|| r.r.skip_bits(8 * lead));
                }
                1 => {
                    let _ = guard(|| r.r.set_bit_pos(8 * lead as u64).unwrap());
                }
                2 => {
                    // decode something further on first, then come back
                    let _ = guard(|| r.r.set_bit_pos(8 * (lead + model.len()) as u64).unwrap());
                    let _ = guard(|| r.r.read_bits(8));
                    let _ = guard(|| r.r.peek_bits(8));
                    let _ = guard(|| r.r.set_bit_pos(8 * lead as u64).unwrap());
                }
                _ => {
                    for _ in 0..lead {
                        let _ = guard(|| r.r.read_bits(8));
                    }
                }
            }
            let val = guard(|| r.r.read_code(CodeOp::Std(code)));
            let pos = guard(|| r.r.bit_pos().unwrap());
            rep.eval(1);
            if val != Out::Ok(v) || pos != Out::Ok(8 * (lead + model.len()) as u64) {
                rep.violation(&format!("{}|bitstream-read|{}", name, e.name()), || format!("read_vbyte_{} on {} of bytes {} = {} ending at {}", name, kind.name(), hex(&model), val.show(), pos.show()), kvf);
            }
        }
        if model.len() >= 2 {
            rep.case(&(big, v));
        }
    }
}

/// a terminated byte string (continuation bit on all bytes but the last)
pub fn check_string(bytes: &[u8], ci: usize, rep: &mut Report) {
    for big in [true, false] {
        let name = if big { "be" } else { "le" };
        let kvf = || format!("kind=string bytes={} ci={}", hex(bytes), ci);
        let value = match vbyte_value(bytes, big) {
            Some(v) => v,
            None => continue, // does not fit 64 bits: outside the claim
        };
        let r = io_read(bytes, big, false);
        rep.eval(2);
        if r != Out::Ok((value, bytes.len())) {
            rep.violation(&format!("{}|complete|decode|{}", name, if r.is_ok() { "wrong-value".into() } else { r.class() }), || format!("the terminated string {} decodes to {} but its value is {}", hex(bytes), r.show(), value), kvf);
            continue;
        }
        let w = io_write(value, big, false);
        if w != Out::Ok((bytes.to_vec(), bytes.len())) {
            rep.violation(&format!("{}|complete|re-encode", name), || format!("string {} has value {} which encodes to {:?}: not the encoding of exactly one value", hex(bytes), value, w), kvf);
        }
        if ci % 7 == 0 {
            // through a bit-stream reader too
            let e = if ci % 2 == 0 { En::BE } else { En::LE };
            let mut bits: Bits = vec![];
            for b in bytes {
                push_bits(&mut bits, e, *b as u64, 8);
            }
            let img = image(&bits, e, 16);
            let kind = RKind::ALL[ci % 5];
            let mut rd = make_reader(RCfg { e, kind, be: RBackend::MemS }, &img);
            let val = guard(|| rd.r.read_code(CodeOp::Std(if big { Code::VByteBe } else { Code::VByteLe })));
            rep.eval(1);
            if val != Out::Ok(value) {
                rep.violation(&format!("{}|complete|bitstream-decode", name), || format!("string {} read from a {} bit stream on {} = {} expected {}", hex(bytes), e.name(), kind.name(), val.show(), value), kvf);
            }
        }
        if bytes.len() >= 2 {
            rep.case(&(big, bytes.to_vec()));
        }
    }
}

#[derive(Clone, Copy, Debug, PartialEq, Eq, Hash)]
enum Item {
    Dense(u64, u64),
    Boundaries,
    Strings(usize, u8),
    RandomStrings(u64),
}

pub fn run(ctx: &Ctx) -> Report {
    let mut work = vec![];
    let dense: u64 = ctx.pick(1 << 9, 1 << 19, 1 << 21);
    let chunks = 32;
    for c in 0..chunks {
        work.push(Item::Dense(c * dense / chunks, (c + 1) * dense / chunks));
    }
    work.push(Item::Boundaries);
    for first in 0..=127u8 {
        work.push(Item::Strings(2, first));
        work.push(Item::Strings(3, first));
    }
    work.push(Item::Strings(1, 0));
    for i in 0..16 {
        work.push(Item::RandomStrings(i));
    }
    let mut rep = par_items(ctx, "C18", &work, |item, rep| match *item {
        Item::Dense(lo, hi) => {
            for v in lo..hi {
                check_value(v, v as usize, rep);
            }
            if lo == 0 {
                rep.sample(|| format!("16512 -> be {} le {}", hex(&vbyte_bytes(16512, true)), hex(&vbyte_bytes(16512, false))));
            }
        }
        Item::Boundaries => {
            let mut rng = Rng::derive(ctx.seed, 0xC18);
            let mut vals: Vec<u64> = vec![u64::MAX, u64::MAX - 1, 0];
            let mut base: u128 = 0;
            for k in 1..=10u32 {
                base += 1u128 << (7 * k);
                for d in -130i128..=130 {
                    let x = base as i128 + d;
                    if x >= 0 && x <= u64::MAX as i128 {
                        vals.push(x as u64);
                    }
                }
            }
            for i in 0..64 {
                for d in [-1i128, 0, 1] {
                    let x = (1i128 << i) + d;
                    if x >= 0 {
                        vals.push(x as u64);
                    }
                }
            }
            for _ in 0..ctx.pick(50, 300_000, 1_000_000) {
                vals.push(rng.log_uniform(64));
            }
            for (i, v) in vals.iter().enumerate() {
                check_value(*v, i, rep);
                if i < 4000 || i % 16 == 0 {
                    check_hostile_io(*v, i, rep);
                }
            }
            rep.exhaustive("every length-step boundary 2^7 + 2^14 + ... +-130 up to 10 bytes, 2^i-1..2^i+1, 2^64-1");
        }
        Item::Strings(len, first) => {
            // all strings of this length whose first 7-bit group is `first`
            match len {
                1 => {
                    for b in 0..128u8 {
                        check_string(&[b], b as usize, rep);
                    }
                }
                2 => {
                    for b in 0..128u8 {
                        check_string(&[first | 0x80, b], first as usize * 128 + b as usize, rep);
                    }
                }
                _ => {
                    let stride = match ctx.tier {
                        Tier::Thorough => 1,
                        Tier::Quick => 5,
                        Tier::Tiny => 61,
                    };
                    let mut i = (first as usize) % stride;
                    while i < 128 * 128 {
                        let (m, l) = ((i / 128) as u8, (i % 128) as u8);
                        check_string(&[first | 0x80, m | 0x80, l], i + first as usize, rep);
                        i += stride;
                    }
                }
            }
        }
        Item::RandomStrings(i) => {
            let mut rng = Rng::derive(ctx.seed, 0xC18F + i);
            for k in 0..ctx.pick(20, 20_000, 200_000) {
                let len = 4 + rng.below(7) as usize;
                let mut s: Vec<u8> = (0..len).map(|_| (rng.next() as u8) | 0x80).collect();
                s[len - 1] &= 0x7f;
                if len == 10 {
                    // keep the value within 64 bits reasonably often
                    let top = if rng.chance(1, 2) { 0 } else { 1 };
                    if rng.chance(1, 2) {
                        s[0] = 0x80 | top;
                        s[9] = (s[9] & 0x7f).min(1);
                    }
                }
                check_string(&s, k, rep);
            }
        }
    });
    if ctx.tier == Tier::Thorough {
        rep.exhaustive("every terminated byte string of length <= 3, both variants");
    } else if ctx.tier == Tier::Quick {
        rep.exhaustive("every terminated byte string of length <= 2, both variants (length 3: every 5th)");
    }
    rep.exhaustive(&format!("every value below {}", dense));
    rep
}

pub fn replay(case: &str, rep: &mut Report) {
    let kv = Kv::parse(case);
    let ci = kv.usize("ci");
    if kv.get("kind") == "hostile" {
        for c in 0..4 {
            check_hostile_io(kv.u64("v"), ci + c, rep);
        }
    } else if kv.get("kind") == "value" {
        for c in 0..40 {
            check_value(kv.u64("v"), ci + c, rep);
        }
    } else {
        check_string(&unhex(kv.get("bytes")), ci - ci % 7, rep);
    }
}
