//! C20 — code lengths are monotone and Kraft-bounded; the change-point search is exact.

use crate::drivers::*;
use crate::model::{code_len, Code};
use crate::report::{Kv, Report};
use crate::rng::Rng;
use crate::{par_items, Ctx, Tier};
use dsi_bitstream::prelude as lib;
use dsi_bitstream::prelude::FindChangePoints;
use std::cell::Cell;

/// largest value of the universal codes' domain
const DOM_MAX: u64 = u64::MAX - 1;

#[derive(Clone, Debug)]
pub struct LenFn {
    pub name: String,
    pub code: Code,
}

impl LenFn {
    /// the library length function
    pub fn call(&self, n: u64) -> usize {
        match self.code {
            Code::Unary => (n + 1) as usize,
            Code::Gamma => lib::len_gamma(n),
            Code::Delta => lib::len_delta(n),
            Code::Omega => lib::len_omega(n),
            Code::Zeta(k) => lib::len_zeta(n, k as usize),
            Code::Pi(k) => lib::len_pi(n, k as usize),
            Code::Golomb(b) => lib::len_golomb(n, b),
            Code::Rice(k) => lib::len_rice(n, k as usize),
            Code::ExpGolomb(k) => lib::len_exp_golomb(n, k as usize),
            Code::MinBin(u) => lib::len_minimal_binary(n, u),
            Code::VByteBe | Code::VByteLe => lib::bit_len_vbyte(n),
        }
    }
}

pub fn len_fns(thorough: bool) -> Vec<LenFn> {
    let mut v = vec![];
    let mut push = |code: Code| v.push(LenFn { name: code.name(), code });
    push(Code::Gamma);
    push(Code::Delta);
    push(Code::Omega);
    push(Code::VByteBe);
    let ks: Vec<u32> = if thorough { (0..=16).chain([20, 31, 32, 33, 62, 63].into_iter()).collect() } else { (0..=16).chain([20, 32, 63].into_iter()).collect() };
    for &k in &ks {
        if k >= 1 {
            push(Code::Zeta(k));
        }
        push(Code::Pi(k));
        push(Code::ExpGolomb(k));
        push(Code::Rice(k));
    }
    for b in (1..=64u64).chain([100, 1000, 1 << 20, (1 << 32) + 1, 1 << 62, 1 << 63, (1 << 63) + 12345].into_iter()) {
        push(Code::Golomb(b));
    }
    v
}

// ---- tiny exact 256-bit accumulator --------------------------------------------------------------
#[derive(Clone, Copy, Debug, PartialEq, Eq, PartialOrd, Ord)]
struct U256 {
    hi: u128,
    lo: u128,
}
impl U256 {
    const ZERO: U256 = U256 { hi: 0, lo: 0 };
    /// count * 2^sh, None on overflow
    fn term(count: u64, sh: u32) -> Option<U256> {
        let c = count as u128;
        if sh >= 256 {
            return if c == 0 { Some(U256::ZERO) } else { None };
        }
        if sh >= 128 {
            let s = sh - 128;
            if s > 0 && c >> (128 - s) != 0 {
                return None;
            }
            Some(U256 { hi: c << s, lo: 0 })
        } else if sh == 0 {
            Some(U256 { hi: 0, lo: c })
        } else {
            Some(U256 { hi: c >> (128 - sh), lo: c << sh })
        }
    }
    fn add(self, o: U256) -> Option<U256> {
        let (lo, c) = self.lo.overflowing_add(o.lo);
        let (hi, c1) = self.hi.overflowing_add(o.hi);
        let (hi, c2) = hi.overflowing_add(c as u128);
        if c1 || c2 {
            None
        } else {
            Some(U256 { hi, lo })
        }
    }
}
const SCALE: u32 = 250;
const ONE: U256 = U256 { hi: 1u128 << (SCALE - 128), lo: 0 };

/// independent change-point finder over a monotone function (exponential + binary search),
/// up to `cap` points; returns (points, complete?)
fn my_change_points(f: &dyn Fn(u64) -> usize, max: u64, cap: usize) -> (Vec<(u64, usize)>, bool) {
    let mut pts = vec![(0u64, f(0))];
    let mut cur = 0u64;
    loop {
        if pts.len() >= cap {
            return (pts, false);
        }
        let prev = f(cur);
        if cur == max || f(max) == prev {
            return (pts, true);
        }
        // smallest x in (cur, max] with f(x) != prev: galloping then bisection
        let mut lo = cur; // f(lo) == prev
        let mut step = 1u64;
        let mut hi;
        loop {
            hi = if max - lo <= step { max } else { lo + step };
            if f(hi) != prev {
                break;
            }
            lo = hi;
            step = step.saturating_mul(2);
        }
        // invariant: f(lo) == prev, f(hi) != prev
        while hi - lo > 1 {
            let mid = lo + (hi - lo) / 2;
            if f(mid) == prev {
                lo = mid;
            } else {
                hi = mid;
            }
        }
        pts.push((hi, f(hi)));
        cur = hi;
    }
}

fn check_monotone_kraft(lf: &LenFn, ctx: &Ctx, rep: &mut Report) {
    let f = |n: u64| lf.call(n);
    let kvf = || format!("part=lengths fn={}", lf.name);
    // (a) consecutive values: monotone, equal to the model, partial Kraft sums <= 1
    let dense: u64 = ctx.pick(1 << 8, 1 << 18, 1 << 20);
    let mut prev = f(0);
    let mut sum = U256::ZERO;
    let mut small_terms = 0u64;
    let mut kraft_bad = false;
    for n in 0..dense {
        let l = f(n);
        rep.eval(1);
        if l < prev {
            rep.violation(&format!("monotone|{}", lf.code.family()), || format!("len_{}({}) = {} < len({}) = {}", lf.name, n, l, n - 1, prev), kvf);
            return;
        }
        if l as u128 != code_len(lf.code, n) {
            rep.violation(&format!("length-differs-from-definition|{}", lf.code.family()), || format!("len_{}({}) = {} but the codeword has {} bits", lf.name, n, l, code_len(lf.code, n)), kvf);
            return;
        }
        prev = l;
        if (l as u32) <= SCALE {
            match U256::term(1, SCALE - l as u32).and_then(|t| sum.add(t)) {
                Some(s) => sum = s,
                None => kraft_bad = true,
            }
        } else {
            small_terms += 1;
        }
        if sum > ONE || kraft_bad {
            rep.violation(&format!("kraft|{}", lf.code.family()), || format!("the Kraft sum of the first {} codeword lengths of {} exceeds 1", n + 1, lf.name), kvf);
            return;
        }
    }
    let _ = small_terms; // each < 2^-250: cannot change the verdict for 2^20 terms
    rep.case(&("dense", lf.name.clone(), dense));
    // (b) windows around every power of two: monotone and equal to the model
    let radius: u64 = ctx.pick(4, 1 << 8, 1 << 8);
    for i in 1..=64u32 {
        let c: u128 = 1u128 << i;
        let lo = c.saturating_sub(radius as u128).min(DOM_MAX as u128) as u64;
        let hi = (c + radius as u128).min(DOM_MAX as u128) as u64;
        if lo >= hi {
            continue;
        }
        let mut prev = f(lo);
        for n in lo + 1..=hi {
            let l = f(n);
            rep.eval(1);
            if l < prev {
                rep.violation(&format!("monotone|{}", lf.code.family()), || format!("len_{}({}) = {} < len({}) = {}", lf.name, n, l, n - 1, prev), kvf);
                return;
            }
            if l as u128 != code_len(lf.code, n) && code_len(lf.code, n) <= usize::MAX as u128 {
                rep.violation(&format!("length-differs-from-definition|{}", lf.code.family()), || format!("len_{}({}) = {} but the codeword has {} bits", lf.name, n, l, code_len(lf.code, n)), kvf);
                return;
            }
            prev = l;
        }
        rep.case(&("window", lf.name.clone(), i));
    }
    // (c) Kraft over the whole domain, bracket by bracket (exact): sum over change points of count * 2^-len
    let (pts, complete) = my_change_points(&f, DOM_MAX, 6000);
    let mut sum = U256::ZERO;
    let mut bound_small = 0u64;
    for (i, (p, l)) in pts.iter().enumerate() {
        let next: u128 = if i + 1 < pts.len() { pts[i + 1].0 as u128 } else if complete { DOM_MAX as u128 + 1 } else { *p as u128 };
        let count = (next - *p as u128) as u64;
        rep.eval(1);
        if (*l as u32) <= SCALE {
            match U256::term(count, SCALE - *l as u32).and_then(|t| sum.add(t)) {
                Some(s) if s <= ONE => sum = s,
                _ => {
                    rep.violation(&format!("kraft|{}", lf.code.family()), || format!("the Kraft sum of {} over values 0..{} exceeds 1 (bracket starting at {} with length {})", lf.name, next, p, l), kvf);
                    return;
                }
            }
        } else {
            bound_small += 1;
        }
    }
    // each bracket with len > 250 contributes < 2^64 * 2^-251
    rep.count("kraft_brackets_summed", pts.len() as u64);
    if bound_small > 0 {
        rep.note(format!("{}: {} brackets with length > {} bounded by 2^-186 each", lf.name, bound_small, SCALE));
    }
}

thread_local! {
    static CALLS: Cell<u64> = const { Cell::new(0) };
}
const CALL_BUDGET: u64 = 10_000;

/// run FindChangePoints over f with a per-next() call budget; returns the items (at most `cap`)
/// and how it ended
#[derive(Debug, PartialEq)]
enum End {
    Ended,
    CapReached,
    Budget,
    Panic(String),
}
fn run_iterator(f: &(dyn Fn(u64) -> usize + Sync), cap: usize) -> (Vec<(u64, usize)>, End) {
    let counted = |n: u64| {
        CALLS.with(|c| {
            c.set(c.get() + 1);
            if c.get() > CALL_BUDGET {
                panic!("{}", crate::backends::BUDGET_MSG);
            }
        });
        f(n)
    };
    let mut it = FindChangePoints::new(counted);
    let mut items = vec![];
    loop {
        if items.len() >= cap {
            return (items, End::CapReached);
        }
        CALLS.with(|c| c.set(0));
        match guard_v(|| it.next()) {
            Out::Ok(Some(x)) => items.push(x),
            Out::Ok(None) => return (items, End::Ended),
            Out::Panic(p) => return (items, if p.contains("VERIF-BUDGET") { End::Budget } else { End::Panic(p) }),
            Out::Err(e) => return (items, End::Panic(e)),
        }
    }
}

/// Compare the iterator with the true change points `truth` (complete list if `complete`).
fn judge_iterator(name: &str, family: &str, f: &(dyn Fn(u64) -> usize + Sync), truth: &[(u64, usize)], complete: bool, rep: &mut Report, kvf: &dyn Fn() -> String) {
    let cap = truth.len() + 8;
    let (items, end) = run_iterator(f, cap);
    rep.eval(items.len() as u64 + 1);
    let sig = format!("iterator|{}", family);
    match &end {
        End::Budget => {
            rep.violation(&format!("{}|does-not-end", sig), || format!("FindChangePoints over {}: a single next() made more than {} calls of the function after yielding {:?}", name, CALL_BUDGET, items.last()), kvf);
            return;
        }
        End::Panic(p) => {
            rep.violation(&format!("{}|panic[{}]", sig, panic_kind(p)), || format!("FindChangePoints over {} panicked after {:?}: {}", name, items.last(), p), kvf);
            return;
        }
        _ => {}
    }
    if items.first() != truth.first() {
        rep.violation(&format!("{}|first-item", sig), || format!("FindChangePoints over {} starts with {:?} expected {:?}", name, items.first(), truth.first()), kvf);
        return;
    }
    // every yielded item must be the next true change point, in order
    for (i, it) in items.iter().enumerate() {
        if i >= truth.len() {
            if complete {
                rep.violation(&format!("{}|spurious-item", sig), || format!("FindChangePoints over {} yields {:?} but there are only {} change points", name, it, truth.len()), kvf);
                return;
            }
            break;
        }
        if *it != truth[i] {
            let class = if it.0 > truth[i].0 && truth[i].0 <= 1 << 63 { "skipped-point" } else if it.0 == truth[i].0 { "wrong-value" } else if it.0 > truth[i].0 { "skipped-point-beyond-2^63" } else { "not-a-change-point" };
            if class == "skipped-point-beyond-2^63" {
                // allowed to miss points above 2^63, but then what it yields must still be a true change point
                if !truth.iter().any(|t| t == it) {
                    rep.violation(&format!("{}|not-a-change-point", sig), || format!("FindChangePoints over {} yields {:?} which is not a change point", name, it), kvf);
                }
                return;
            }
            rep.violation(&format!("{}|{}", sig, class), || format!("FindChangePoints over {}: item #{} is {:?} but the next change point is {:?}", name, i, it, truth[i]), kvf);
            return;
        }
    }
    // nothing up to 2^63 may be missing
    if end == End::Ended && items.len() < truth.len() {
        let missing = truth[items.len()];
        if missing.0 <= 1 << 63 {
            rep.violation(&format!("{}|ended-early", sig), || format!("FindChangePoints over {} ended after {:?} but {:?} is a change point <= 2^63", name, items.last(), missing), kvf);
        }
    }
    if end == End::CapReached && complete {
        rep.violation(&format!("{}|does-not-end", sig), || format!("FindChangePoints over {} yielded more items than there are change points ({})", name, truth.len()), kvf);
    }
}

fn check_library_iterator(lf: &LenFn, rep: &mut Report) {
    let f = move |n: u64| lf.call(n.min(DOM_MAX));
    let (truth, complete) = my_change_points(&f, DOM_MAX, 3000);
    let kvf = || format!("part=iterator fn={}", lf.name);
    judge_iterator(&format!("len_{}", lf.name), lf.code.family(), &f, &truth, complete, rep, &kvf);
    rep.case(&("iterator", lf.name.clone(), truth.len()));
    // implied distribution
    let f2 = move |n: u64| lf.call(n.min(DOM_MAX));
    let r = guard_v(|| {
        CALLS.with(|c| c.set(0));
        let total = Cell::new(0u64);
        let counted = |n: u64| {
            total.set(total.get() + 1);
            if total.get() > 2_000_000 {
                panic!("{}", crate::backends::BUDGET_MSG);
            }
            f2(n)
        };
        lib::get_implied_distribution(counted)
    });
    rep.eval(1);
    if !complete && truth.len() >= 3000 && truth.last().map(|t| t.1 <= 128).unwrap_or(false) {
        // more than 3000 change points with length <= 128: the distribution is huge, only termination is not judged here
        return;
    }
    match r {
        Out::Ok((cps, probs)) => {
            let exp_cps: Vec<(u64, usize)> = truth.iter().cloned().take_while(|t| t.1 <= 128).collect();
            let n = cps.len().min(exp_cps.len());
            let prefix_ok = cps[..n] == exp_cps[..n] && (cps.len() == exp_cps.len() || !complete || cps.len() < exp_cps.len() && exp_cps[cps.len()].0 > 1 << 63);
            let mut probs_ok = probs.len() + 1 == cps.len() || (cps.is_empty() && probs.is_empty());
            for (i, p) in probs.iter().enumerate() {
                if i + 1 < cps.len() {
                    let e = 2.0f64.powi(-(cps[i].1 as i32)) * (cps[i + 1].0 - cps[i].0) as f64;
                    if (p - e).abs() > 1e-12 * e.max(1e-300) {
                        probs_ok = false;
                    }
                }
            }
            if !prefix_ok || !probs_ok {
                rep.violation(
                    &format!("implied-distribution|{}", lf.code.family()),
                    || format!("get_implied_distribution(len_{}) returned {} change points / {} probabilities inconsistent with the length function (expected {} change points with length <= 128)", lf.name, cps.len(), probs.len(), exp_cps.len()),
                    kvf,
                );
            }
        }
        o => rep.violation(&format!("implied-distribution|{}|{}", lf.code.family(), o.class()), || format!("get_implied_distribution(len_{}) did not return: {}", lf.name, match o { Out::Panic(p) => p, _ => String::new() }), kvf),
    }
    // sampling from the implied distribution can be set up, and every sample lies in a bracket
    let f3 = move |n: u64| lf.call(n.min(DOM_MAX));
    let limit: Option<u64> = truth.iter().cloned().take_while(|t| t.1 <= 128).last().map(|t| t.0);
    let r = guard_v(|| {
        use rand::SeedableRng;
        let mut rng = rand::rngs::SmallRng::seed_from_u64(0xC20);
        let total = Cell::new(0u64);
        let counted = |n: u64| {
            total.set(total.get() + 1);
            if total.get() > 2_000_000 {
                panic!("{}", crate::backends::BUDGET_MSG);
            }
            f3(n)
        };
        let v: Vec<u64> = lib::sample_implied_distribution(counted, &mut rng).take(64).collect();
        v
    });
    rep.eval(1);
    match (r, limit) {
        (Out::Ok(samples), Some(lim)) => {
            if let Some(bad) = samples.iter().find(|x| **x >= lim || lf.call(**x) > 128) {
                rep.violation(&format!("implied-sampling|{}|outside-brackets", lf.code.family()), || format!("sample_implied_distribution(len_{}) produced {} which lies outside the brackets (last change point with length <= 128 is {})", lf.name, bad, lim), kvf);
            }
            rep.count("implied_samples_checked", samples.len() as u64);
        }
        (Out::Ok(_), None) => {}
        (o, _) => rep.violation(&format!("implied-sampling|{}|{}", lf.code.family(), o.class()), || format!("sample_implied_distribution(len_{}) could not be set up: {}", lf.name, match o { Out::Panic(p) => p, _ => String::new() }), kvf),
    }
}

/// synthetic monotone step function: f(n) = base + #{s in steps : s <= n}
fn check_synthetic(steps: &[u64], base: usize, rep: &mut Report) {
    let st: Vec<u64> = steps.to_vec();
    let f = move |n: u64| base + st.partition_point(|s| *s <= n);
    let mut truth = vec![(0u64, f(0))];
    for s in steps {
        if *s > 0 && truth.last().map(|t| t.0 != *s).unwrap_or(true) {
            truth.push((*s, f(*s)));
        }
    }
    let desc = format!("steps{:?}", &steps[..steps.len().min(6)]);
    let kvf = || format!("part=synthetic base={} steps={}", base, if steps.is_empty() { "-".to_string() } else { steps.iter().map(|s| s.to_string()).collect::<Vec<_>>().join(",") });
    judge_iterator(&desc, "synthetic", &f, &truth, true, rep, &kvf);
    rep.case(&("synthetic", steps.to_vec(), base));
    rep.sample(|| format!("synthetic steps at {:?}: {} change points expected", &steps[..steps.len().min(8)], truth.len()));
}

/// Step functions with arbitrary (strictly increasing) values, up to and including usize::MAX - a
/// function may well use the largest value for "not representable".
fn check_synthetic_vals(steps: &[u64], vals: &[usize], rep: &mut Report) {
    assert!(vals.len() == steps.len() + 1);
    let st: Vec<u64> = steps.to_vec();
    let vs: Vec<usize> = vals.to_vec();
    let f = move |n: u64| vs[st.partition_point(|s| *s <= n)];
    let mut truth = vec![(0u64, f(0))];
    for s in steps {
        truth.push((*s, f(*s)));
    }
    let desc = format!("steps{:?}->values{:?}", &steps[..steps.len().min(6)], &vals[..vals.len().min(7)]);
    let kvf = || {
        format!(
            "part=synthvals steps={} vals={}",
            if steps.is_empty() { "-".to_string() } else { steps.iter().map(|s| s.to_string()).collect::<Vec<_>>().join(",") },
            vals.iter().map(|s| s.to_string()).collect::<Vec<_>>().join(",")
        )
    };
    judge_iterator(&desc, "synthetic-values", &f, &truth, true, rep, &kvf);
    rep.case(&("synthvals", steps.to_vec(), vals.to_vec()));
    if vals.last() == Some(&usize::MAX) {
        rep.count("step_functions_reaching_usize_max", 1);
    }
}

#[derive(Clone, Debug, PartialEq)]
enum Item {
    Lengths(usize),
    Iterator(usize),
    Synthetic(u64),
}

pub fn run(ctx: &Ctx) -> Report {
    let fns = len_fns(ctx.tier == Tier::Thorough);
    let fns: Vec<LenFn> = if ctx.tier == Tier::Tiny { fns.into_iter().step_by(9).collect() } else { fns };
    let mut work = vec![];
    for i in 0..fns.len() {
        work.push(Item::Lengths(i));
        work.push(Item::Iterator(i));
    }
    for i in 0..ctx.pick(2, 16, 64) {
        work.push(Item::Synthetic(i));
    }
    par_items(ctx, "C20", &work, |item, rep| match item {
        Item::Lengths(i) => check_monotone_kraft(&fns[*i], ctx, rep),
        Item::Iterator(i) => check_library_iterator(&fns[*i], rep),
        Item::Synthetic(i) => {
            let mut rng = Rng::derive(ctx.seed, 0xC20 + i);
            if *i == 0 {
                // the fixed families
                check_synthetic(&[], 5, rep);
                check_synthetic(&[], 0, rep);
                for k in 0..=63u32 {
                    let p = 1u64 << k;
                    for s in [p.saturating_sub(1).max(1), p, p + 1] {
                        check_synthetic(&[s], 1, rep);
                    }
                    check_synthetic(&[p, p + 1], 0, rep);
                    check_synthetic(&[p, p + 1, p + 2], 3, rep);
                    if k < 62 {
                        check_synthetic(&[3, 3 + p], 0, rep);
                        check_synthetic(&[p, 2 * p, 3 * p], 0, rep);
                    }
                }
                // gaps around 2^62 and 2^63 between consecutive points
                for g in [(1u64 << 62) - 1, 1 << 62, (1 << 62) + 1, (1 << 63) - 10, (1 << 63) - 1] {
                    check_synthetic(&[10, 10 + g], 0, rep);
                    check_synthetic(&[1, 1 + g], 2, rep);
                }
                // last step below / at / above 2^63
                for s in [(1u64 << 63) - 1, 1 << 63, (1 << 63) + 1, u64::MAX - 2, u64::MAX - 1] {
                    check_synthetic(&[7, 1000, s], 1, rep);
                    check_synthetic(&[s], 0, rep);
                }
                check_synthetic(&(1..=300).collect::<Vec<u64>>(), 0, rep);
                // values at the top of the range
                const M: usize = usize::MAX;
                check_synthetic_vals(&[], &[M], rep);
                check_synthetic_vals(&[], &[M - 1], rep);
                check_synthetic_vals(&[1], &[0, M], rep);
                check_synthetic_vals(&[5], &[0, M], rep);
                check_synthetic_vals(&[1], &[M - 1, M], rep);
                check_synthetic_vals(&[3, 1 << 40], &[7, M - 1, M], rep);
                check_synthetic_vals(&[(1 << 63) - 1], &[0, M], rep);
                check_synthetic_vals(&[1 << 63], &[64, M], rep);
                check_synthetic_vals(&[2, 3, 4], &[0, 1, M - 1, M], rep);
                for k in 0..=63u32 {
                    check_synthetic_vals(&[1u64 << k], &[k as usize, M], rep);
                    check_synthetic_vals(&[(1u64 << k).max(2) - 1, 1u64 << k.max(1)], &[0, M / 2, M], rep);
                }
            }
            for _ in 0..ctx.pick(5, 2000, 10000) {
                let n = rng.below(12) as usize;
                let mut steps: Vec<u64> = (0..n)
                    .map(|_| match rng.below(4) {
                        0 => 1 + rng.below(50),
                        1 => {
                            let k = rng.below(64) as u32;
                            ((1u128 << k) as u64).wrapping_add(rng.below(3)).wrapping_sub(1).max(1)
                        }
                        _ => rng.log_uniform(64).max(1),
                    })
                    .filter(|s| *s < u64::MAX)
                    .collect();
                steps.sort_unstable();
                steps.dedup();
                check_synthetic(&steps, rng.below(4) as usize, rep);
                // the same step positions with arbitrary increasing values, often ending at usize::MAX
                let mut vals: Vec<usize> = (0..=steps.len()).map(|_| rng.log_uniform(63) as usize).collect();
                vals.sort_unstable();
                vals.dedup();
                while vals.len() < steps.len() + 1 {
                    let l = *vals.last().unwrap();
                    vals.push(l + 1 + rng.below(5) as usize);
                }
                if rng.chance(1, 2) {
                    let l = vals.len();
                    vals[l - 1] = usize::MAX;
                    if l >= 2 && rng.chance(1, 2) {
                        vals[l - 2] = usize::MAX - 1;
                    }
                }
                check_synthetic_vals(&steps, &vals, rep);
            }
        }
    })
}

pub fn replay(case: &str, rep: &mut Report) {
    let kv = Kv::parse(case);
    match kv.get("part") {
        "synthvals" => {
            let steps: Vec<u64> = if kv.get("steps") == "-" { vec![] } else { kv.get("steps").split(',').map(|s| s.parse().unwrap()).collect() };
            let vals: Vec<usize> = kv.get("vals").split(',').map(|s| s.parse().unwrap()).collect();
            check_synthetic_vals(&steps, &vals, rep);
        }
        "synthetic" => {
            let steps: Vec<u64> = if kv.get("steps") == "-" { vec![] } else { kv.get("steps").split(',').map(|s| s.parse().unwrap()).collect() };
            check_synthetic(&steps, kv.usize("base"), rep);
        }
        part => {
            let ctx = Ctx { tier: Tier::Quick, seed: 0, threads: 1, procs: 1, variant: "replay".into(), shard: None };
            for lf in len_fns(true) {
                if lf.name == kv.get("fn") {
                    if part == "lengths" {
                        check_monotone_kraft(&lf, &ctx, rep);
                    } else {
                        check_library_iterator(&lf, rep);
                    }
                }
            }
        }
    }
}
