//! C17 — the signed/natural mapping is a bijection on every integer width.

use crate::drivers::*;
use crate::model::to_nat_i128;
use crate::report::Report;
use crate::rng::Rng;
use crate::{par_items, Ctx, Tier};
use dsi_bitstream::prelude::{ToInt, ToNat};

/// 128-bit types need one more bit than u128 has: x >= 0 -> 2x, x < 0 -> -2x-1 (both fit u128)
macro_rules! check_type {
    ($I:ty, $U:ty, $values:expr, $rep:expr, $name:expr) => {{
        let rep: &mut Report = $rep;
        for x in $values {
            let x: $I = x;
            let exp: u128 = to_nat_i128(x as i128);
            let got = guard_v(|| x.to_nat());
            rep.eval(1);
            let kvf = || format!("type={} x={}", $name, x);
            match got {
                Out::Ok(n) if n as u128 == exp => {
                    let back = guard_v(|| n.to_int());
                    rep.eval(1);
                    if back != Out::Ok(x) {
                        rep.violation(&format!("{}|to_int-of-to_nat", $name), || format!("to_int(to_nat({})) = {} (to_nat = {})", x, back.show(), n), kvf);
                    }
                }
                o => rep.violation(&format!("{}|to_nat-formula", $name), || format!("to_nat({}) = {} but the formula gives {}", x, o.show(), exp), kvf),
            }
            // the other direction, on the bit pattern of x taken as a natural
            let y = x as $U;
            let gi = guard_v(|| y.to_int());
            rep.eval(1);
            match gi {
                Out::Ok(i) => {
                    // inverse of the formula: even y -> y/2, odd y -> -(y+1)/2
                    let expi: i128 = if y & 1 == 0 { (y >> 1) as i128 } else { !((y >> 1) as i128) };
                    let expi_ok = (i as i128) == expi || core::mem::size_of::<$U>() == 16 && (y >> 1) as i128 >= 0 && (i as i128) == expi;
                    let back = guard_v(|| i.to_nat());
                    if !expi_ok || back != Out::Ok(y) {
                        rep.violation(&format!("{}|to_nat-of-to_int", $name), || format!("to_int({}) = {} (formula {}), to_nat of it = {}", y, i, expi, back.show()), || format!("type={} y={}", $name, y));
                    }
                }
                o => rep.violation(&format!("{}|to_int|{}", $name, o.class()), || format!("to_int({}) = {}", y, o.show()), || format!("type={} y={}", $name, y)),
            }
        }
    }};
}

fn near_values_i128(bits: u32, radius: i128, rng: &mut Rng, nrandom: usize) -> Vec<i128> {
    let min: i128 = if bits == 128 { i128::MIN } else { -(1i128 << (bits - 1)) };
    let max: i128 = if bits == 128 { i128::MAX } else { (1i128 << (bits - 1)) - 1 };
    let mut v = vec![];
    let mut centers: Vec<i128> = vec![0, min, max];
    for i in 1..bits - 1 {
        centers.push(1i128 << i);
        centers.push(-(1i128 << i));
    }
    for c in centers {
        let lo = c.saturating_sub(radius).max(min);
        let hi = c.saturating_add(radius).min(max);
        let mut x = lo;
        loop {
            v.push(x);
            if x == hi {
                break;
            }
            x += 1;
        }
    }
    for _ in 0..nrandom {
        let hi = rng.next() as u128;
        let lo = rng.next() as u128;
        let r = ((hi << 64) | lo) as i128;
        let sh = rng.below(bits as u64) as u32;
        let x = if bits == 128 { r >> sh } else { ((r >> sh) as i128).clamp(min, max) };
        v.push(x.clamp(min, max));
    }
    v
}

#[derive(Clone, Copy, Debug, PartialEq, Eq, Hash)]
enum Item {
    Small,
    I32(u32),
    Wide(u32),
}

pub fn run(ctx: &Ctx) -> Report {
    let mut work = vec![Item::Small];
    let chunks = 64u32;
    for c in 0..chunks {
        work.push(Item::I32(c));
    }
    for b in [64u32, 128, 0] {
        work.push(Item::Wide(b));
    }
    par_items(ctx, "C17", &work, |item, rep| match *item {
        Item::Small => {
            check_type!(i8, u8, i8::MIN..=i8::MAX, rep, "i8");
            check_type!(i16, u16, i16::MIN..=i16::MAX, rep, "i16");
            for x in i8::MIN..=i8::MAX {
                rep.case(&("i8", x as i128));
            }
            for x in i16::MIN..=i16::MAX {
                rep.case(&("i16", x as i128));
            }
            rep.count("distinct_values_checked", 256 + 65536);
            rep.exhaustive("i8/u8 and i16/u16: all values");
            rep.sample(|| format!("to_nat(-3i8) = {}, to_int(5u8) = {}", (-3i8).to_nat(), 5u8.to_int()));
        }
        Item::I32(c) => {
            let chunk = (1u64 << 32) / 64;
            let lo = c as u64 * chunk;
            let stride: u64 = match ctx.tier {
                Tier::Thorough => 1,
                Tier::Quick => 61,
                Tier::Tiny => 1 << 22,
            };
            let vals = (lo..lo + chunk).step_by(stride as usize).map(|u| u as u32 as i32);
            check_type!(i32, u32, vals, rep, "i32");
            let edge: Vec<i32> = [i32::MIN, i32::MIN + 1, -1, 0, 1, i32::MAX - 1, i32::MAX].to_vec();
            check_type!(i32, u32, edge.into_iter(), rep, "i32");
            rep.case(&("i32", c));
            rep.count("distinct_values_checked", chunk / stride);
            if ctx.tier == Tier::Thorough {
                rep.exhaustive("i32/u32: all 2^32 values");
            }
        }
        Item::Wide(bits) => {
            let mut rng = Rng::derive(ctx.seed, 0xC17 + bits as u64);
            let radius: i128 = ctx.pick(16, 1 << 12, 1 << 16);
            let nrand = ctx.pick(100, 200_000, 1_000_000);
            match bits {
                64 => {
                    let v = near_values_i128(64, radius, &mut rng, nrand);
                    rep.count("distinct_values_checked", v.len() as u64);
                    check_type!(i64, u64, v.iter().map(|x| *x as i64), rep, "i64");
                    for x in &v {
                        rep.case(&("i64", *x));
                    }
                }
                128 => {
                    let v = near_values_i128(128, radius, &mut rng, nrand);
                    rep.count("distinct_values_checked", v.len() as u64);
                    check_type!(i128, u128, v.iter().cloned(), rep, "i128");
                    for x in &v {
                        rep.case(&("i128", *x));
                    }
                }
                _ => {
                    let v = near_values_i128(isize::BITS, radius, &mut rng, nrand);
                    rep.count("distinct_values_checked", v.len() as u64);
                    check_type!(isize, usize, v.iter().map(|x| *x as isize), rep, "isize");
                    for x in &v {
                        rep.case(&("isize", *x));
                    }
                }
            }
        }
    })
}

pub fn replay(case: &str, rep: &mut Report) {
    let kv = crate::report::Kv::parse(case);
    let ty = kv.get("type").to_string();
    let raw = kv.opt("x").or(kv.opt("y")).unwrap_or("0").to_string();
    macro_rules! one {
        ($I:ty, $U:ty, $name:expr) => {{
            let x: $I = match raw.parse::<$I>() {
                Ok(v) => v,
                Err(_) => raw.parse::<$U>().map(|u| u as $I).unwrap_or(0),
            };
            check_type!($I, $U, [x].into_iter(), rep, $name);
        }};
    }
    match ty.as_str() {
        "i8" => one!(i8, u8, "i8"),
        "i16" => one!(i16, u16, "i16"),
        "i32" => one!(i32, u32, "i32"),
        "i64" => one!(i64, u64, "i64"),
        "i128" => one!(i128, u128, "i128"),
        _ => one!(isize, usize, "isize"),
    }
}
