//! C14 — counting and tracing wrappers are transparent and count exactly.

use super::c01::model_apply;
use super::common::*;
use super::readhist::{gen_history, model_step, random_image, Expect, GenOpts};
use crate::drivers::*;
use crate::model::*;
use crate::report::{hex, unhex, Kv, Report};
use crate::rng::{Pattern, Rng};
use crate::{par_items, Ctx};

pub fn all_code_ops(rng: &mut Rng) -> Vec<CodeOp> {
    let mut v = vec![
        CodeOp::Std(Code::Unary),
        CodeOp::Std(Code::Gamma),
        CodeOp::Std(Code::Delta),
        CodeOp::Std(Code::Omega),
        CodeOp::Std(Code::VByteBe),
        CodeOp::Std(Code::VByteLe),
        CodeOp::GammaP(true),
        CodeOp::GammaP(false),
        CodeOp::DeltaP(true, true),
        CodeOp::DeltaP(true, false),
        CodeOp::DeltaP(false, true),
        CodeOp::DeltaP(false, false),
        CodeOp::Zeta3Def,
        CodeOp::Zeta3P(true),
        CodeOp::Zeta3P(false),
    ];
    for k in [1u32, 2, 3, 5, 8] {
        v.push(CodeOp::Std(Code::Zeta(k)));
        v.push(CodeOp::ZetaKP(k, true));
        v.push(CodeOp::Std(Code::Pi(k)));
        v.push(CodeOp::Std(Code::Rice(k)));
        v.push(CodeOp::Std(Code::ExpGolomb(k)));
    }
    v.push(CodeOp::Std(Code::Pi(0)));
    v.push(CodeOp::Std(Code::Rice(0)));
    for b in [1u64, 3, 10, 1000] {
        v.push(CodeOp::Std(Code::Golomb(b)));
        v.push(CodeOp::Std(Code::MinBin(b + rng.below(5))));
    }
    v
}

// ---- writer side --------------------------------------------------------------------------------

#[derive(Clone, Debug)]
pub enum W14 {
    Op(WOp),
    CopyFrom(u64),
}
fn w14_to_string(ops: &[W14]) -> String {
    ops.iter().map(|o| match o { W14::Op(w) => w.to_string(), W14::CopyFrom(n) => format!("cf:{}", n) }).collect::<Vec<_>>().join(",")
}
fn parse_w14(s: &str) -> Vec<W14> {
    if s == "-" || s.is_empty() {
        return vec![];
    }
    s.split(',').map(|t| if let Some(n) = t.strip_prefix("cf:") { W14::CopyFrom(n.parse().unwrap()) } else { W14::Op(WOp::parse(t)) }).collect()
}

pub fn check_writer(e: En, w: WWord, wrap: Wrap, ops: &[W14], src_image: &[u8], rep: &mut Report) {
    let mut h = make_wrapped_writer(e, w, wrap);
    let mut bits: Bits = vec![];
    let mut counted: u64 = 0;
    let src_bits = bits_of_image(src_image, e);
    let mut src = make_reader(RCfg { e, kind: RKind::Buf32, be: RBackend::RecZ }, src_image);
    let mut spos = 0usize;
    let kvf = || format!("side=writer e={} w={} wrap={} src={} ops={}", e.name(), w.name(), wrap.name().replace('<', "[").replace('>', "]"), hex(src_image), w14_to_string(ops));
    let sigbase = format!("{}|writer|{}", wrap.name(), e.name());
    for (i, op) in ops.iter().enumerate() {
        let (kind, got, exp): (String, Out<usize>, usize) = match op {
            W14::Op(wop) => {
                let before = bits.len();
                let exp = model_apply(&mut bits, e, w.bits(), wop);
                if !matches!(wop, WOp::Flush) {
                    counted += (bits.len() - before) as u64;
                }
                let got = match wop {
                    WOp::Bits(v, n) => guard(|| h.w.write_bits(*v, *n)),
                    WOp::Unary(x) => guard(|| h.w.write_unary(*x)),
                    WOp::Code(c, v) => guard(|| h.w.write_code(*c, *v)),
                    _ => guard(|| h.w.flush()),
                };
                let k = match wop {
                    WOp::Code(c, _) => format!("write_code:{}", c.name().split('(').next().unwrap_or("")),
                    o => o.kind().to_string(),
                };
                (k, got, exp)
            }
            W14::CopyFrom(n) => {
                if spos + *n as usize > src_bits.len() {
                    continue;
                }
                let got = guard(|| h.w.copy_from(src.r.as_mut(), *n).map(|_| 0usize));
                bits.extend_from_slice(&src_bits[spos..spos + *n as usize]);
                spos += *n as usize;
                counted += n;
                ("copy_from".to_string(), got, 0)
            }
        };
        rep.eval(2);
        rep.case(&(wrap, e, "w", kind.clone(), i.min(3)));
        if got != Out::Ok(exp) {
            rep.violation(&format!("{}|{}|result|{}", sigbase, kind, got.class()), || format!("op #{} {:?} returned {} expected {}", i, op, got.show(), exp), kvf);
            return;
        }
        if let Some(c) = h.w.counter() {
            if c != counted {
                rep.violation(
                    &format!("{}|{}|counter", sigbase, kind),
                    || format!("after op #{} {:?} bits_written = {} but {} bits have been written to the stream", i, op, c, counted),
                    kvf,
                );
                return;
            }
        }
        // transparency: what reached the backend is a prefix of the unwrapped image
        if let Some(d) = h.w.delivered() {
            let img = image(&bits, e, w.bytes());
            if d.len() > img.len() || d[..] != img[..d.len()] {
                rep.violation(&format!("{}|{}|bytes", sigbase, kind), || format!("after op #{} {:?} the backend holds {} but the unwrapped stream is {}", i, op, hex(&d), hex(&img)), kvf);
                return;
            }
        }
    }
    let _ = guard(|| h.w.flush());
    if let Some(c) = h.w.counter() {
        rep.eval(1);
        if c != counted {
            rep.violation(&format!("{}|final-flush|counter", sigbase), || format!("after the final flush bits_written = {} but {} bits have been written", c, counted), kvf);
            return;
        }
    }
    model_apply(&mut bits, e, w.bits(), &WOp::Flush);
    let img = image(&bits, e, w.bytes());
    let d = h.w.delivered().unwrap_or_default();
    if d != img {
        rep.violation(&format!("{}|final|bytes", sigbase), || format!("final stream {} but the unwrapped stream is {}", hex(&d), hex(&img)), kvf);
    }
    rep.sample(kvf);
}

// ---- reader side --------------------------------------------------------------------------------

#[derive(Clone, Debug)]
pub enum R14 {
    Op(ROp),
    CopyTo(u64),
    /// copy into a destination that has room for this many 16-bit words only: the copy fails part-way
    CopyToFull(u64, usize),
}
fn r14_to_string(ops: &[R14]) -> String {
    ops.iter().map(|o| match o { R14::Op(r) => r.to_string(), R14::CopyTo(n) => format!("ct:{}", n), R14::CopyToFull(n, c) => format!("cx:{}:{}", n, c) }).collect::<Vec<_>>().join(",")
}
fn parse_r14(s: &str) -> Vec<R14> {
    if s == "-" || s.is_empty() {
        return vec![];
    }
    s.split(',')
        .map(|t| {
            if let Some(n) = t.strip_prefix("ct:") {
                R14::CopyTo(n.parse().unwrap())
            } else if let Some(r) = t.strip_prefix("cx:") {
                let (n, c) = r.split_once(':').unwrap();
                R14::CopyToFull(n.parse().unwrap(), c.parse().unwrap())
            } else {
                R14::Op(ROp::parse(t))
            }
        })
        .collect()
}

pub fn check_reader(e: En, kind: RKind, wrap: Wrap, image: &[u8], ops: &[R14], rep: &mut Report) {
    let bits = bits_of_image(image, e);
    let mut h = make_wrapped_reader(e, kind, wrap, image);
    let mut dst = make_writer(WCfg { e, w: WWord::U64, be: WBackend::Rec(None) });
    let mut dbits: Bits = vec![];
    let mut pos = 0usize;
    let kvf = || format!("side=reader e={} kind={} wrap={} image={} ops={}", e.name(), kind.name(), wrap.name().replace('<', "[").replace('>', "]"), hex(image), r14_to_string(ops));
    let sigbase = format!("{}|reader|{}|{}", wrap.name(), e.name(), kind.name());
    for (i, op) in ops.iter().enumerate() {
        let opkind: String;
        match op {
            R14::Op(rop) => {
                let exp = match model_step(&bits, pos, e, true, rop) {
                    Some(x) => x,
                    None => continue,
                };
                opkind = match rop {
                    ROp::Code(c) => format!("read_code:{}", c.name().split('(').next().unwrap_or("")),
                    o => o.kind().to_string(),
                };
                let got: Out<Option<u64>> = match rop {
                    ROp::Read(n) => guard(|| h.r.read_bits(*n).map(Some)),
                    ROp::Peek(n) => guard(|| h.r.peek_bits(*n).map(Some)),
                    ROp::Skip(n) => guard(|| h.r.skip_bits(*n).map(|_| None)),
                    ROp::Unary => guard(|| h.r.read_unary().map(Some)),
                    ROp::Code(c) => guard(|| h.r.read_code(*c).map(Some)),
                    ROp::PeekSkip(k, n) => {
                        let v = guard(|| h.r.peek_bits(*k).map(Some));
                        if v.is_ok() {
                            let s = guard(|| {
                                h.r.skip_after_peek(*n);
                                Ok(())
                            });
                            if let Out::Panic(p) = s {
                                Out::Panic(p)
                            } else {
                                v
                            }
                        } else {
                            v
                        }
                    }
                    ROp::Pos | ROp::CloneSwitch | ROp::Seek(_) | ROp::IoRead(_) | ROp::PastEnd => continue,
                };
                let (ev, np) = match exp {
                    Expect::Value(v, np) => (Some(v), np),
                    Expect::Unit(np) => (None, np),
                    Expect::Bytes(_, np) => (None, np),
                };
                rep.eval(1);
                if got != Out::Ok(ev) {
                    rep.violation(&format!("{}|{}|value|{}", sigbase, opkind, got.class()), || format!("op #{} {} at bit {} returned {} but the unwrapped reader gives {:?}", i, rop.to_string(), pos, got.show(), ev), kvf);
                    return;
                }
                pos = np;
            }
            R14::CopyToFull(n, cap) => {
                // the destination fills up: the copy must fail, and whatever the wrapper then says it
                // has read must be what the wrapped reader has consumed
                if pos + *n as usize > bits.len() || (*n as usize) < 16 * (cap + 2) + 128 {
                    continue;
                }
                let mut small = make_writer(WCfg { e, w: WWord::U16, be: WBackend::Rec(Some(*cap)) });
                let got = guard(|| h.r.copy_to(small.w.as_mut(), *n));
                rep.eval(1);
                rep.case(&(wrap, e, kind, "r", "copy_to_full", i.min(3)));
                let _ = guard_v(move || drop(small));
                if got.is_ok() {
                    rep.violation(&format!("{}|copy_to|error-not-reported", sigbase), || format!("copy of {} bits into a destination with room for {} bits returned {}", n, 16 * cap, got.show()), kvf);
                    return;
                }
                if let Out::Panic(p) = &got {
                    rep.violation(&format!("{}|copy_to_full|panic[{}]", sigbase, panic_kind(p)), || p.clone(), kvf);
                    return;
                }
                if let (Some(c), Some(Ok(p))) = (h.r.counter(), h.r.bit_pos()) {
                    if c != p {
                        rep.violation(
                            &format!("{}|copy_to_full|counter", sigbase),
                            || format!("after a copy of {} bits that failed part-way (destination full after {} bits) bits_read = {} but the wrapped reader is at bit {}", n, 16 * cap, c, p),
                            kvf,
                        );
                    }
                    rep.count("failed_copies_with_counter_checked", 1);
                }
                rep.sample(kvf);
                return;
            }
            R14::CopyTo(n) => {
                if pos + *n as usize > bits.len() {
                    continue;
                }
                opkind = "copy_to".into();
                let got = guard(|| h.r.copy_to(dst.w.as_mut(), *n));
                rep.eval(1);
                if !got.is_ok() {
                    rep.violation(&format!("{}|copy_to|{}", sigbase, got.class()), || got.show(), kvf);
                    return;
                }
                dbits.extend_from_slice(&bits[pos..pos + *n as usize]);
                pos += *n as usize;
            }
        }
        rep.case(&(wrap, e, kind, "r", opkind.clone(), i.min(3)));
        rep.eval(1);
        if let Some(c) = h.r.counter() {
            if c != pos as u64 {
                rep.violation(
                    &format!("{}|{}|counter", sigbase, opkind),
                    || format!("after op #{} {:?} bits_read = {} but {} bits have been consumed from the stream", i, op, c, pos),
                    kvf,
                );
                return;
            }
        }
        if let Some(p) = h.r.bit_pos() {
            if p != Ok(pos as u64) {
                rep.violation(&format!("{}|{}|position", sigbase, opkind), || format!("after op #{} {:?} the inner reader is at {:?} but the unwrapped reader would be at {}", i, op, p, pos), kvf);
                return;
            }
        }
    }
    // what follows must still decode (transparency of the reader state), and the copied bits must match
    let tail = guard(|| h.r.read_bits(32));
    let exp_tail = get_bits_zext(&bits, pos, 32, e);
    if tail != Out::Ok(exp_tail) {
        rep.violation(&format!("{}|tail|value", sigbase), || format!("after the history read_bits(32) = {} expected {:#x}", tail.show(), exp_tail), kvf);
        return;
    }
    let _ = guard(|| dst.w.flush());
    let d = dst.w.delivered().unwrap_or_default();
    if d != crate::model::image(&dbits, e, 8) {
        rep.violation(&format!("{}|copy_to|bytes", sigbase), || format!("bits copied out through the wrapper {} expected {}", hex(&d), hex(&crate::model::image(&dbits, e, 8))), kvf);
    }
    rep.sample(kvf);
}

// ---- a wrapper around a *section* of a stream: wrap, use, unwrap (into_inner), carry on ----------------

/// apply the operations and collect what each returned (usize::MAX for an error)
fn apply_w<E: dsi_bitstream::prelude::Endianness, BW: dsi_bitstream::prelude::BitWrite<E> + dsi_bitstream::prelude::GammaWrite<E>>(w: &mut BW, ops: &[WOp], rets: &mut Vec<usize>) {
    for op in ops {
        let r = match op {
            WOp::Bits(v, n) => w.write_bits(*v, *n).ok(),
            WOp::Unary(x) => w.write_unary(*x).ok(),
            WOp::Code(_, v) => w.write_gamma(*v).ok(),
            _ => w.flush().ok(),
        };
        rets.push(r.unwrap_or(usize::MAX));
    }
}

fn section_ops(rng: &mut Rng, n: usize) -> Vec<WOp> {
    (0..n)
        .map(|k| match if k == 0 && rng.chance(1, 3) { 3 } else { rng.below(7) % 4 } {
            3 => WOp::Flush,
            0 => {
                let nb = rng.below(65) as usize;
                let v = rng.next();
                WOp::Bits(if nb == 64 { v } else { v & ((1u64 << nb) - 1) }, nb)
            }
            1 => WOp::Unary(rng.log_uniform(7)),
            _ => WOp::Code(CodeOp::Std(Code::Gamma), rng.log_uniform(30)),
        })
        .collect()
}

macro_rules! section_case {
    ($E:ty, $W:ty, $e:expr, $rng:expr, $rep:expr) => {{
        use dsi_bitstream::prelude::*;
        let e: En = $e;
        let rep: &mut Report = $rep;
        let wbits = <$W as crate::backends::HWord>::NBITS;
        let (na, nb, nc) = ($rng.below(4) as usize, 1 + $rng.below(5) as usize, 1 + $rng.below(4) as usize);
        let a = section_ops($rng, na);
        let b = section_ops($rng, nb);
        let c = section_ops($rng, nc);
        let mut bits: Bits = vec![];
        let mut want_rets: Vec<usize> = vec![];
        for op in a.iter() {
            want_rets.push(model_apply(&mut bits, e, wbits, op));
        }
        let before = bits.len();
        let mut section = 0usize;
        for op in b.iter() {
            let l0 = bits.len();
            want_rets.push(model_apply(&mut bits, e, wbits, op));
            // the counter counts bits written, not the padding of a flush
            if !matches!(op, WOp::Flush) {
                section += bits.len() - l0;
            }
        }
        for op in c.iter() {
            want_rets.push(model_apply(&mut bits, e, wbits, op));
        }
        let kvf = || format!("side=section e={} w={} a={} b={} c={}", e.name(), stringify!($W), wops_to_string(&a), wops_to_string(&b), wops_to_string(&c));
        // ---- writer: the wrapper must leave the wrapped writer exactly where an unwrapped one would be
        let got = guard_v(|| {
            let mut rets: Vec<usize> = vec![];
            let mut w = BufBitWriter::<$E, _>::new(MemWordWriterVec::new(Vec::<$W>::new()));
            apply_w::<$E, _>(&mut w, &a, &mut rets);
            let mut cw = CountBitWriter::<$E, _, false>::new(w);
            apply_w::<$E, _>(&mut cw, &b, &mut rets);
            let counted = cw.bits_written;
            let mut w = cw.into_inner();
            apply_w::<$E, _>(&mut w, &c, &mut rets);
            (counted, crate::backends::bytes_from_words(&w.into_inner().unwrap().into_inner()), rets)
        });
        rep.eval(1);
        rep.case(&("section-writer", e, stringify!($W), before % wbits, section % wbits));
        let img = image(&bits, e, wbits / 8);
        match &got {
            Out::Ok((counted, bytes, rets)) if *counted == section && *bytes == img && *rets == want_rets => {}
            o => rep.violation(
                &format!("CountBit|section|writer|{}|{}", e.name(), if !o.is_ok() { o.class() } else { "stream-differs".to_string() }),
                || format!("wrapping only the middle section ({} bits after {} bits) and unwrapping with into_inner: {:?}; the unwrapped stream is {}, the section has {} bits and the operations return {:?}", section, before, o, hex(&img), section, want_rets),
                kvf,
            ),
        }
        // ---- reader: read the same three sections back, the middle one through a wrapper
        let words: Vec<$W> = crate::backends::words_from_bytes(&{
            let mut p = img.clone();
            p.resize(p.len() + 16, 0);
            p
        });
        let read_back = guard_v(|| {
            let mut out: Vec<u64> = vec![];
            let mut r = BufBitReader::<$E, _>::new(MemWordReader::new(words.clone()));
            /// returns the number of padding bits skipped where the writer flushed
            fn rd<E: Endianness, BR: BitRead<E> + GammaRead<E> + BitSeek>(r: &mut BR, ops: &[WOp], out: &mut Vec<u64>, wbits: u64) -> usize {
                let mut padding = 0usize;
                for op in ops {
                    match op {
                        WOp::Bits(_, n) => out.push(r.read_bits(*n).unwrap()),
                        WOp::Unary(_) => out.push(r.read_unary().unwrap()),
                        WOp::Code(..) => out.push(r.read_gamma().unwrap()),
                        _ => {
                            // the writer flushed here: skip its padding
                            let p = r.bit_pos().ok().unwrap();
                            let pad = ((wbits - p % wbits) % wbits) as usize;
                            r.skip_bits(pad).unwrap();
                            padding += pad;
                        }
                    }
                }
                padding
            }
            rd::<$E, _>(&mut r, &a, &mut out, wbits as u64);
            let mut cr = CountBitReader::<$E, _, false>::new(r);
            let pad_b = rd::<$E, _>(&mut cr, &b, &mut out, wbits as u64);
            // the reader's counter also counts the padding it skipped
            let counted = cr.bits_read - pad_b;
            let mut r = cr.into_inner();
            rd::<$E, _>(&mut r, &c, &mut out, wbits as u64);
            (counted, out, r.bit_pos().unwrap())
        });
        let want: Vec<u64> = a.iter().chain(b.iter()).chain(c.iter()).filter_map(|op| match op {
            WOp::Bits(v, _) => Some(*v),
            WOp::Unary(x) => Some(*x),
            WOp::Code(_, v) => Some(*v),
            _ => None,
        }).collect();
        rep.eval(1);
        match &read_back {
            Out::Ok((counted, vals, pos)) if *counted == section && *vals == want && *pos == bits.len() as u64 => {}
            o => rep.violation(
                &format!("CountBit|section|reader|{}|{}", e.name(), if !o.is_ok() { o.class() } else { "values-or-position-differ".to_string() }),
                || format!("reading the middle section through a wrapper and unwrapping with into_inner: {:?}; expected counter {} values {:?} final position {}", o, section, want, bits.len()),
                kvf,
            ),
        }
    }};
}

pub fn check_sections(e: En, wbits: usize, rng: &mut Rng, n: usize, rep: &mut Report) {
    for _ in 0..n {
        match (e, wbits) {
            (En::BE, 16) => section_case!(BE, u16, e, rng, rep),
            (En::BE, 32) => section_case!(BE, u32, e, rng, rep),
            (En::BE, _) => section_case!(BE, u64, e, rng, rep),
            (En::LE, 16) => section_case!(LE, u16, e, rng, rep),
            (En::LE, 32) => section_case!(LE, u32, e, rng, rep),
            (En::LE, _) => section_case!(LE, u64, e, rng, rep),
        }
    }
}

#[derive(Clone, Copy, Debug, PartialEq, Eq, Hash)]
enum Item {
    Writer(En, WWord, Wrap),
    Reader(En, RKind, Wrap),
}

pub fn run(ctx: &Ctx) -> Report {
    let mut work = vec![];
    for e in En::BOTH {
        for wrap in Wrap::ALL {
            for w in [WWord::U64, WWord::U16] {
                work.push(Item::Writer(e, w, wrap));
            }
            for k in [RKind::Buf16, RKind::Buf32, RKind::Buf64, RKind::Unbuf] {
                work.push(Item::Reader(e, k, wrap));
            }
        }
    }
    par_items(ctx, "C14", &work, |item, rep| match *item {
        Item::Writer(e, w, wrap) => {
            let mut rng = Rng::derive(ctx.seed, crate::report::hash_of(&(0xC14u64, e, w, wrap)));
            let cops = all_code_ops(&mut rng);
            let src = random_image(&mut rng, Pattern::Random, 512, e);
            // the printing wrappers write to stderr on every call: a smaller slice
            let scale = if wrap == Wrap::Count { 1 } else { 8 };
            // (1) every code op once, each followed by a flush
            for c in &cops {
                for v in [0u64, 1, 10, 63, 64, 1000, 70000] {
                    if v > c.code().max_value() || code_len(c.code(), v) > 3000 {
                        continue;
                    }
                    let ops = vec![W14::Op(WOp::Bits(5, 3)), W14::Op(WOp::Code(*c, v)), W14::Op(WOp::Flush), W14::Op(WOp::Code(*c, v / 2)), W14::CopyFrom(7 + v % 90)];
                    check_writer(e, w, wrap, &ops, &src, rep);
                }
            }
            // (1b) the wrapper around a section of the stream only
            if wrap == Wrap::Count {
                for wb in [16usize, 32, 64] {
                    check_sections(e, wb, &mut rng, ctx.pick(3, 1500, 10000), rep);
                }
            }
            // (2) random histories over all operations
            for _ in 0..ctx.pick(3, 4000, 30000) / scale {
                let n = 1 + rng.below(30) as usize;
                let mut ops = vec![];
                for _ in 0..n {
                    ops.push(match rng.below(100) {
                        0..=19 => {
                            let nb = rng.below(65) as usize;
                            W14::Op(WOp::Bits(rng.next(), nb))
                        }
                        20..=29 => W14::Op(WOp::Unary(rng.log_uniform(8))),
                        30..=39 => W14::Op(WOp::Flush),
                        40..=49 => W14::CopyFrom(rng.below(200)),
                        _ => {
                            let c = *rng.pick(&cops);
                            let mut v = rng.log_uniform_max(c.code().max_value().min(1 << 40));
                            if code_len(c.code(), v) > 2000 {
                                v %= 50;
                                v = v.min(c.code().max_value());
                            }
                            W14::Op(WOp::Code(c, v))
                        }
                    });
                }
                check_writer(e, w, wrap, &ops, &src, rep);
            }
        }
        Item::Reader(e, kind, wrap) => {
            let mut rng = Rng::derive(ctx.seed, crate::report::hash_of(&(0xC14Fu64, e, kind, wrap)));
            let cops = all_code_ops(&mut rng);
            let scale = if wrap == Wrap::Count { 1 } else { 8 };
            // (1) every code op on a stream holding exactly that code
            for c in &cops {
                for v in [0u64, 1, 10, 63, 64, 1000, 70000] {
                    if v > c.code().max_value() || code_len(c.code(), v) > 3000 {
                        continue;
                    }
                    let mut bits: Bits = vec![1, 0, 1];
                    push_code(&mut bits, e, c.code(), v);
                    push_code(&mut bits, e, c.code(), v / 3);
                    for _ in 0..200 {
                        bits.push((rng.next() & 1) as u8);
                    }
                    let img = image(&bits, e, 8);
                    let ops = vec![R14::Op(ROp::Read(3)), R14::Op(ROp::Code(*c)), R14::Op(ROp::Peek(9)), R14::Op(ROp::Code(*c)), R14::CopyTo(70), R14::Op(ROp::Skip(5))];
                    check_reader(e, kind, wrap, &img, &ops, rep);
                }
            }
            // (2) random in-domain histories on random data
            let o = GenOpts { seeks: false, io: false, codes: true, clones: false, pos: false, max_read_code_len: 300 };
            for hix in 0..ctx.pick(3, 4000, 30000) / scale {
                let pat = [Pattern::Random, Pattern::ZeroRuns, Pattern::Sparse][hix % 3];
                let nb = 8 * (2 + rng.below(40) as usize);
                let img = random_image(&mut rng, pat, nb, e);
                let cfg = RCfg { e, kind, be: RBackend::RecZ };
                let hl = 1 + rng.below(30) as usize;
                let hist = gen_history(&mut rng, cfg, &img, hl, &o, &cops);
                let mut ops: Vec<R14> = vec![];
                for op in hist {
                    ops.push(R14::Op(op));
                    if rng.chance(1, 8) {
                        ops.push(R14::CopyTo(rng.below(150)));
                    }
                }
                check_reader(e, kind, wrap, &img, &ops, rep);
                // a prefix of the same history, then a copy that the destination cannot hold
                if hix % 4 == 0 {
                    let big = random_image(&mut rng, pat, 8 * 64, e);
                    let cut = rng.below(4) as usize;
                    let mut ops2: Vec<R14> = vec![R14::Op(ROp::Read(rng.below(65) as usize)), R14::Op(ROp::Peek(1 + rng.below(16) as usize)), R14::Op(ROp::Skip(rng.below(40) as usize))];
                    ops2.truncate(cut);
                    let cap = rng.below(9) as usize;
                    ops2.push(R14::CopyToFull(16 * (cap as u64 + 2) + 128 + rng.below(700), cap));
                    check_reader(e, kind, wrap, &big, &ops2, rep);
                }
            }
        }
    })
}

pub fn replay(case: &str, rep: &mut Report) {
    let kv = Kv::parse(case);
    let e = parse_en(kv.get("e"));
    let wrap = *Wrap::ALL.iter().find(|w| w.name().replace('<', "[").replace('>', "]") == kv.get("wrap")).expect("bad wrap");
    if kv.get("side") == "section" {
        // section cases are regenerated from the seed: re-run a batch for this endianness and word
        let wb = match kv.get("w") {
            "u16" => 16,
            "u32" => 32,
            _ => 64,
        };
        let mut rng = Rng::derive(0, crate::report::hash_of(&(0xC14u64, e, if wb == 16 { WWord::U16 } else { WWord::U64 }, Wrap::Count)));
        check_sections(e, wb, &mut rng, 1500, rep);
        return;
    }
    if kv.get("side") == "writer" {
        let w = *WWord::ALL.iter().find(|w| w.name() == kv.get("w")).unwrap();
        check_writer(e, w, wrap, &parse_w14(kv.get("ops")), &unhex(kv.get("src")), rep);
    } else {
        let kind = *RKind::ALL.iter().find(|k| k.name() == kv.get("kind")).unwrap();
        check_reader(e, kind, wrap, &unhex(kv.get("image")), &parse_r14(kv.get("ops")), rep);
    }
}
