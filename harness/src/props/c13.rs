//! C13 — in-memory word streams behave as an array with a cursor.

use crate::backends::HWord;
use crate::drivers::*;
use crate::report::{Kv, Report};
use crate::rng::Rng;
use crate::{par_items, Ctx, Tier};
use dsi_bitstream::prelude::*;

#[derive(Clone, Copy, Debug, PartialEq, Eq, Hash)]
pub enum Op {
    Read,
    Write(u8), // index into the two test values
    Pos,
    SetPos(u64),
    Len,
    /// WordWrite::flush: nothing to do for a memory stream - array, cursor and length unchanged
    Flush,
}
impl Op {
    fn to_string(self) -> String {
        match self {
            Op::Read => "r".into(),
            Op::Write(i) => format!("w{}", i),
            Op::Pos => "p".into(),
            Op::SetPos(p) => format!("s{}", p),
            Op::Len => "l".into(),
            Op::Flush => "f".into(),
        }
    }
    fn parse(s: &str) -> Op {
        match &s[..1] {
            "r" => Op::Read,
            "w" => Op::Write(s[1..].parse().unwrap()),
            "p" => Op::Pos,
            "s" => Op::SetPos(s[1..].parse().unwrap()),
            "f" => Op::Flush,
            _ => Op::Len,
        }
    }
}

#[derive(Clone, Debug, PartialEq, Eq)]
pub enum Obs {
    Word(u128),
    Unit,
    Err,
    Num(u64),
    /// the operation does not exist for this type
    NA,
    Panic(String),
}

#[derive(Clone, Copy, Debug, PartialEq, Eq, Hash)]
pub enum Kind {
    ReaderZext,
    ReaderStrict,
    WriterSlice,
    WriterVec,
}
impl Kind {
    const ALL: [Kind; 4] = [Kind::ReaderZext, Kind::ReaderStrict, Kind::WriterSlice, Kind::WriterVec];
    fn name(self) -> &'static str {
        match self {
            Kind::ReaderZext => "MemWordReader(zext)",
            Kind::ReaderStrict => "MemWordReader(strict)",
            Kind::WriterSlice => "MemWordWriterSlice",
            Kind::WriterVec => "MemWordWriterVec",
        }
    }
    fn parse(s: &str) -> Kind {
        *Kind::ALL.iter().find(|k| k.name() == s).expect("bad kind")
    }
}

const VALS: [u128; 2] = [0x0123_4567_89ab_cdef_fedc_ba98_7654_3210, 0xffff_ffff_ffff_ffff_ffff_ffff_ffff_ff01];

/// the array + cursor model
pub fn model(kind: Kind, arr: &[u128], mask: u128, seq: &[Op]) -> (Vec<Obs>, Vec<u128>) {
    let mut a: Vec<u128> = arr.to_vec();
    let mut cur: u64 = 0;
    let mut out = vec![];
    for op in seq {
        out.push(match *op {
            Op::Read => match kind {
                Kind::ReaderZext => {
                    let v = if cur < a.len() as u64 { a[cur as usize] } else { 0 };
                    cur += 1;
                    Obs::Word(v)
                }
                _ => {
                    if cur < a.len() as u64 {
                        let v = a[cur as usize];
                        cur += 1;
                        Obs::Word(v)
                    } else {
                        Obs::Err
                    }
                }
            },
            Op::Write(i) => match kind {
                Kind::ReaderZext | Kind::ReaderStrict => Obs::NA,
                Kind::WriterSlice => {
                    if cur < a.len() as u64 {
                        a[cur as usize] = VALS[i as usize] & mask;
                        cur += 1;
                        Obs::Unit
                    } else {
                        Obs::Err
                    }
                }
                Kind::WriterVec => {
                    if cur >= a.len() as u64 {
                        a.resize(cur as usize + 1, 0);
                    }
                    a[cur as usize] = VALS[i as usize] & mask;
                    cur += 1;
                    Obs::Unit
                }
            },
            Op::Pos => Obs::Num(cur),
            Op::SetPos(p) => match kind {
                Kind::ReaderZext => {
                    cur = p;
                    Obs::Unit
                }
                _ => {
                    if p > a.len() as u64 {
                        Obs::Err
                    } else {
                        cur = p;
                        Obs::Unit
                    }
                }
            },
            Op::Len => match kind {
                Kind::ReaderZext | Kind::ReaderStrict => Obs::NA,
                _ => Obs::Num(a.len() as u64),
            },
            Op::Flush => match kind {
                Kind::ReaderZext | Kind::ReaderStrict => Obs::NA,
                _ => Obs::Unit,
            },
        });
    }
    (out, a)
}

fn ob<T, E>(r: Out<Result<T, E>>, f: impl FnOnce(T) -> Obs) -> Obs {
    match r {
        Out::Ok(Ok(v)) => f(v),
        Out::Ok(Err(_)) => Obs::Err,
        Out::Err(e) => Obs::Panic(e),
        Out::Panic(p) => Obs::Panic(p),
    }
}

macro_rules! drive_reader {
    ($s:expr, $seq:expr, $W:ty) => {{
        let mut out = vec![];
        for op in $seq {
            out.push(match *op {
                Op::Read => ob(guard_v(|| $s.read_word()), |w: $W| Obs::Word(w as u128)),
                Op::Write(_) | Op::Len | Op::Flush => Obs::NA,
                Op::Pos => ob(guard_v(|| $s.word_pos()), Obs::Num),
                Op::SetPos(p) => ob(guard_v(|| $s.set_word_pos(p)), |_| Obs::Unit),
            });
        }
        out
    }};
}
macro_rules! drive_writer {
    ($s:expr, $seq:expr, $W:ty) => {{
        let mut out = vec![];
        for op in $seq {
            out.push(match *op {
                Op::Read => ob(guard_v(|| $s.read_word()), |w: $W| Obs::Word(w as u128)),
                Op::Write(i) => ob(guard_v(|| $s.write_word(VALS[i as usize] as $W)), |_| Obs::Unit),
                Op::Pos => ob(guard_v(|| $s.word_pos()), Obs::Num),
                Op::SetPos(p) => ob(guard_v(|| $s.set_word_pos(p)), |_| Obs::Unit),
                Op::Flush => ob(guard_v(|| WordWrite::flush(&mut $s)), |_| Obs::Unit),
                Op::Len => {
                    let l = $s.len();
                    if $s.is_empty() != (l == 0) {
                        Obs::Panic("is_empty disagrees with len".into())
                    } else {
                        Obs::Num(l as u64)
                    }
                }
            });
        }
        out
    }};
}

/// run the sequence on the real type; storage 0 = owned Vec, 1 = borrowed, 2 = array / second borrowed form
macro_rules! real_run {
    ($W:ty, $kind:expr, $storage:expr, $arr:expr, $seq:expr) => {{
        let arr: Vec<$W> = $arr.iter().map(|x| *x as $W).collect();
        let seq: &[Op] = $seq;
        match ($kind, $storage) {
            (Kind::ReaderZext, 0) => {
                let mut s = MemWordReader::new(arr.clone());
                let o = drive_reader!(s, seq, $W);
                (o, s.into_inner())
            }
            (Kind::ReaderZext, 1) => {
                let mut s = MemWordReader::new(&arr[..]);
                let o = drive_reader!(s, seq, $W);
                (o, s.into_inner().to_vec())
            }
            (Kind::ReaderZext, _) => {
                let mut s = MemWordReader::new(&arr);
                let o = drive_reader!(s, seq, $W);
                (o, s.into_inner().clone())
            }
            (Kind::ReaderStrict, 0) => {
                let mut s = MemWordReader::new_strict(arr.clone());
                let o = drive_reader!(s, seq, $W);
                (o, arr.clone())
            }
            (Kind::ReaderStrict, 1) => {
                let mut s = MemWordReader::new_strict(&arr[..]);
                let o = drive_reader!(s, seq, $W);
                (o, arr.clone())
            }
            (Kind::ReaderStrict, _) => {
                let b: Box<[$W]> = arr.clone().into_boxed_slice();
                let mut s = MemWordReader::new_strict(b);
                let o = drive_reader!(s, seq, $W);
                (o, arr.clone())
            }
            (Kind::WriterSlice, 0) => {
                let mut s = MemWordWriterSlice::new(arr.clone());
                let o = drive_writer!(s, seq, $W);
                (o, s.into_inner())
            }
            (Kind::WriterSlice, 1) => {
                let mut store = arr.clone();
                let o = {
                    let mut s = MemWordWriterSlice::new(&mut store[..]);
                    drive_writer!(s, seq, $W)
                };
                (o, store)
            }
            (Kind::WriterSlice, _) => {
                let b: Box<[$W]> = arr.clone().into_boxed_slice();
                let mut s = MemWordWriterSlice::new(b);
                let o = drive_writer!(s, seq, $W);
                (o, s.into_inner().to_vec())
            }
            (Kind::WriterVec, 0) => {
                let mut s = MemWordWriterVec::new(arr.clone());
                let o = drive_writer!(s, seq, $W);
                (o, s.into_inner())
            }
            (Kind::WriterVec, _) => {
                let mut store = arr.clone();
                let o = {
                    let mut s = MemWordWriterVec::new(&mut store);
                    drive_writer!(s, seq, $W)
                };
                (o, store)
            }
        }
    }};
}

#[derive(Clone, Debug)]
pub struct Case {
    pub kind: Kind,
    pub wbits: usize,
    pub storage: usize,
    pub arr: Vec<u128>,
    pub seq: Vec<Op>,
}
impl Case {
    fn to_kv(&self) -> String {
        format!(
            "kind={} wbits={} storage={} arr={} seq={}",
            self.kind.name(),
            self.wbits,
            self.storage,
            if self.arr.is_empty() { "-".into() } else { self.arr.iter().map(|x| format!("{:x}", x)).collect::<Vec<_>>().join(",") },
            if self.seq.is_empty() { "-".into() } else { self.seq.iter().map(|o| o.to_string()).collect::<Vec<_>>().join(",") }
        )
    }
    fn from_kv(s: &str) -> Case {
        let kv = Kv::parse(s);
        Case {
            kind: Kind::parse(kv.get("kind")),
            wbits: kv.usize("wbits"),
            storage: kv.usize("storage"),
            arr: if kv.get("arr") == "-" { vec![] } else { kv.get("arr").split(',').map(|x| u128::from_str_radix(x, 16).unwrap()).collect() },
            seq: if kv.get("seq") == "-" { vec![] } else { kv.get("seq").split(',').map(Op::parse).collect() },
        }
    }
}

pub fn check_case(c: &Case, rep: &mut Report) {
    let mask: u128 = if c.wbits == 128 { u128::MAX } else { (1u128 << c.wbits) - 1 };
    let arr: Vec<u128> = c.arr.iter().map(|x| x & mask).collect();
    let (exp_obs, exp_arr) = model(c.kind, &arr, mask, &c.seq);
    let (got_obs, got_arr): (Vec<Obs>, Vec<u128>) = match c.wbits {
        8 => {
            let (o, a) = real_run!(u8, c.kind, c.storage, arr, &c.seq);
            (o, a.iter().map(|x| *x as u128).collect())
        }
        16 => {
            let (o, a) = real_run!(u16, c.kind, c.storage, arr, &c.seq);
            (o, a.iter().map(|x| *x as u128).collect())
        }
        32 => {
            let (o, a) = real_run!(u32, c.kind, c.storage, arr, &c.seq);
            (o, a.iter().map(|x| *x as u128).collect())
        }
        64 => {
            let (o, a) = real_run!(u64, c.kind, c.storage, arr, &c.seq);
            (o, a.iter().map(|x| *x as u128).collect())
        }
        _ => {
            let (o, a) = real_run!(u128, c.kind, c.storage, arr, &c.seq);
            (o, a)
        }
    };
    rep.eval(c.seq.len() as u64 + 1);
    if got_obs != exp_obs || got_arr != exp_arr {
        let first = (0..exp_obs.len()).find(|i| got_obs[*i] != exp_obs[*i]);
        let (opname, class) = match first {
            Some(i) => (
                c.seq[i].to_string()[..1].to_string(),
                match &got_obs[i] {
                    Obs::Panic(p) => format!("panic[{}]", panic_kind(p)),
                    Obs::Err => "unexpected-error".into(),
                    _ if exp_obs[i] == Obs::Err => "missing-error".into(),
                    _ => "wrong-result".into(),
                },
            ),
            None => ("final".into(), "contents".into()),
        };
        rep.violation(
            &format!("{}|{}|{}", c.kind.name(), opname, class),
            || format!("sequence {:?} on array {:x?}: observed {:?} / contents {:x?}, array+cursor model gives {:?} / {:x?}", c.seq, arr, got_obs, got_arr, exp_obs, exp_arr),
            || c.to_kv(),
        );
    }
    let _ = <u8 as HWord>::NBITS;
}

fn alphabet(len: usize) -> Vec<Op> {
    let mut v = vec![Op::Read, Op::Write(0), Op::Write(1), Op::Pos, Op::Len, Op::Flush];
    for p in 0..=(len as u64 + 2) {
        v.push(Op::SetPos(p));
    }
    v.push(Op::SetPos((1u64 << 32) + 1));
    v
}

pub fn run(ctx: &Ctx) -> Report {
    let mut work: Vec<(Kind, usize, usize, usize)> = vec![]; // kind, wbits, storage, array length
    for kind in Kind::ALL {
        for wbits in [8usize, 16, 32, 64, 128] {
            for storage in 0..3 {
                if kind == Kind::WriterVec && storage == 2 {
                    continue;
                }
                for len in 0..=3 {
                    work.push((kind, wbits, storage, len));
                }
            }
        }
    }
    let mut rep = par_items(ctx, "C13", &work, |&(kind, wbits, storage, len), rep| {
        let mut rng = Rng::derive(ctx.seed, crate::report::hash_of(&(0xC13u64, kind, wbits, storage, len)));
        let arr: Vec<u128> = (0..len).map(|i| (rng.next() as u128) << 64 | rng.next() as u128 | (i as u128 + 1)).collect();
        let alpha: Vec<Op> = alphabet(len).into_iter().filter(|o| !(matches!(kind, Kind::ReaderZext | Kind::ReaderStrict) && matches!(o, Op::Write(1) | Op::Flush))).collect();
        // depth: deeper for the canonical configuration, shallower for the word/storage variants
        let canonical = wbits == 64 && storage == 0;
        let depth = match ctx.tier {
            Tier::Tiny => 2,
            Tier::Quick => {
                if canonical {
                    5
                } else {
                    4
                }
            }
            Tier::Thorough => {
                if canonical {
                    7
                } else {
                    5
                }
            }
        };
        let mut count = 0u64;
        for d in 0..=depth {
            let mut idx = vec![0usize; d];
            'outer: loop {
                let seq: Vec<Op> = idx.iter().map(|i| alpha[*i]).collect();
                if d >= 2 && d <= 3 {
                    rep.case(&(kind, wbits, storage, len, &seq));
                }
                check_case(&Case { kind, wbits, storage, arr: arr.clone(), seq }, rep);
                count += 1;
                if d == 0 {
                    break;
                }
                let mut k = 0;
                loop {
                    idx[k] += 1;
                    if idx[k] < alpha.len() {
                        break;
                    }
                    idx[k] = 0;
                    k += 1;
                    if k == d {
                        break 'outer;
                    }
                }
            }
        }
        // positions at the top of the 64-bit range (the zero-extended reader accepts every position and
        // must report it exactly; the others must refuse): every sequence of length <= 3 over a small alphabet
        {
            let far = [(1u64 << 63) - 1, 1 << 63, (1 << 63) + 5, u64::MAX - 16];
            let mut al: Vec<Op> = vec![Op::Read, Op::Pos, Op::SetPos(0), Op::SetPos(len as u64)];
            for f in far {
                al.push(Op::SetPos(f));
            }
            if !matches!(kind, Kind::ReaderZext | Kind::ReaderStrict) {
                al.push(Op::Write(0));
                al.push(Op::Len);
            }
            let dmax = if ctx.tier == Tier::Tiny { 2 } else { 3 };
            for d in 1..=dmax {
                let mut idx = vec![0usize; d];
                'far: loop {
                    let seq: Vec<Op> = idx.iter().map(|i| al[*i]).collect();
                    if seq.iter().any(|o| matches!(o, Op::SetPos(p) if *p >= (1 << 62))) {
                        check_case(&Case { kind, wbits, storage, arr: arr.clone(), seq }, rep);
                        count += 1;
                        rep.count("sequences_with_positions_beyond_2^62", 1);
                    }
                    let mut k = 0;
                    loop {
                        idx[k] += 1;
                        if idx[k] < al.len() {
                            break;
                        }
                        idx[k] = 0;
                        k += 1;
                        if k == d {
                            break 'far;
                        }
                    }
                }
            }
        }
        rep.cover(&format!("sequences/{}", kind.name()), crate::report::hash_of(&(wbits, storage, len, count)));
        rep.count("sequences_enumerated", count);
        rep.case(&(kind, wbits, storage, len, depth));
        rep.exhaustive(&format!("{} u{} storage#{} array length {}: all {} op sequences of length <= {}", kind.name(), wbits, storage, len, count, depth));
        // long random sequences over longer arrays
        for _ in 0..ctx.pick(2, 300, 3000) {
            let l = rng.below(12) as usize;
            let a: Vec<u128> = (0..l).map(|_| (rng.next() as u128) << 64 | rng.next() as u128).collect();
            let n = 1 + rng.below(ctx.pick(10, 80, 300)) as usize;
            let seq: Vec<Op> = (0..n)
                .map(|_| match rng.below(10) {
                    0..=2 => Op::Read,
                    3..=5 => Op::Write(rng.below(2) as u8),
                    6 => Op::Pos,
                    7 => {
                        if rng.chance(1, 2) {
                            Op::Len
                        } else {
                            Op::Flush
                        }
                    }
                    _ => Op::SetPos(if rng.chance(1, 20) {
                        (1 << 32) + rng.below(5)
                    } else if rng.chance(1, 25) {
                        *rng.pick(&[(1u64 << 63) - 1, 1 << 63, (1 << 63) + 77, u64::MAX - 400])
                    } else {
                        rng.below(l as u64 + 4)
                    }),
                })
                .collect();
            let c = Case { kind, wbits, storage, arr: a, seq };
            check_case(&c, rep);
            rep.case(&(kind, wbits, storage, "random", rng.0));
            rep.sample(|| c.to_kv());
        }
    });
    // distinct count: every enumerated sequence is a distinct case by construction
    let n = rep.counters.get("sequences_enumerated").copied().unwrap_or(0);
    rep.note(format!("{} distinct op sequences enumerated (distinct by construction; to bound memory the hash set holds the sequences of length 2-3, one entry per deeper configuration and one per random sequence)", n));
    rep
}

pub fn replay(case: &str, rep: &mut Report) {
    check_case(&Case::from_kv(case), rep);
}
