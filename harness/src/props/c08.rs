//! C08 — bulk copy moves exactly n bits and leaves both streams intact.

use super::c01::model_apply;
use super::c02::{fill_prefix, pos_after};
use super::common::*;
use super::diag;
use super::readhist::run_ops;
use crate::drivers::*;
use crate::model::*;
use crate::report::{hex, unhex, Kv, Report};
use crate::rng::{Pattern, Rng};
use crate::{par_items, Ctx, Tier};

#[derive(Clone, Copy, Debug, PartialEq, Eq, Hash)]
pub enum Path {
    /// reader.copy_to(writer): the reader's specialisation (if compiled in)
    ReaderCopyTo,
    /// writer.copy_from(reader): the writer's specialisation (if compiled in)
    WriterCopyFrom,
    /// pass-through wrappers on both sides: the generic chunked implementation (copy_to)
    GenericTo,
    /// the generic chunked implementation (copy_from)
    GenericFrom,
}
impl Path {
    pub const ALL: [Path; 4] = [Path::ReaderCopyTo, Path::WriterCopyFrom, Path::GenericTo, Path::GenericFrom];
    fn name(self) -> &'static str {
        match self {
            Path::ReaderCopyTo => "copy_to",
            Path::WriterCopyFrom => "copy_from",
            Path::GenericTo => "generic_to",
            Path::GenericFrom => "generic_from",
        }
    }
    fn parse(s: &str) -> Path {
        *Path::ALL.iter().find(|p| p.name() == s).expect("bad path")
    }
}

#[derive(Clone, Debug)]
pub struct Case {
    pub rcfg: RCfg,
    pub image: Vec<u8>,
    pub prefix: Vec<ROp>,
    pub ww: WWord,
    /// operations on the destination before the copy (may leave stale bits in its buffer)
    pub dst_pre: Vec<WOp>,
    /// optional earlier copy of this many bits through reader.copy_to
    pub n0: Option<u64>,
    pub n: u64,
    pub path: Path,
    /// optional second copy of this many bits through the other specialisation
    pub n2: Option<u64>,
    pub src_cont: Vec<ROp>,
    pub dst_cont: Vec<WOp>,
}
impl Case {
    fn to_kv(&self) -> String {
        format!(
            "rcfg={} image={} prefix={} ww={} dpre={} n0={} n={} path={} n2={} scont={} dcont={}",
            self.rcfg.name(),
            hex(&self.image),
            rops_to_string(&self.prefix),
            self.ww.name(),
            wops_to_string(&self.dst_pre),
            self.n0.map(|x| x.to_string()).unwrap_or("-".into()),
            self.n,
            self.path.name(),
            self.n2.map(|x| x.to_string()).unwrap_or("-".into()),
            rops_to_string(&self.src_cont),
            wops_to_string(&self.dst_cont)
        )
    }
    fn from_kv(s: &str) -> Case {
        let kv = Kv::parse(s);
        Case {
            rcfg: parse_rcfg(kv.get("rcfg")),
            image: unhex(kv.get("image")),
            prefix: parse_rops(kv.get("prefix")),
            ww: *WWord::ALL.iter().find(|w| w.name() == kv.get("ww")).unwrap(),
            dst_pre: parse_wops(kv.get("dpre")),
            n0: kv.opt("n0").and_then(|s| s.parse().ok()),
            n: kv.u64("n"),
            path: Path::parse(kv.get("path")),
            n2: kv.opt("n2").and_then(|s| s.parse().ok()),
            src_cont: parse_rops(kv.get("scont")),
            dst_cont: parse_wops(kv.get("dcont")),
        }
    }
}

fn do_copy(path: Path, e: En, r: &mut dyn DynReader, w: &mut dyn DynWriter, n: u64) -> Out<()> {
    match path {
        Path::ReaderCopyTo => guard(|| r.copy_to(w, n)),
        Path::WriterCopyFrom => guard(|| w.copy_from(r, n)),
        Path::GenericTo => guard(|| generic_copy(e, r, w, n, false)),
        Path::GenericFrom => guard(|| generic_copy(e, r, w, n, true)),
    }
}

fn n_class(n: u64, sfill: usize, rw: usize) -> &'static str {
    if n == 0 {
        "zero"
    } else if (n as usize) < sfill {
        "lt-src-fill"
    } else if n as usize == sfill {
        "eq-src-fill"
    } else if n > 64 && sfill > 64 {
        "gt64-buffered"
    } else if n as usize <= sfill + rw {
        "one-more-word"
    } else {
        "many-words"
    }
}

pub fn check_case(c: &Case, rep: &mut Report) {
    let e = c.rcfg.e;
    let rw = c.rcfg.kind.word_bits();
    let bits = bits_of_image(&c.image, e);
    let mut rh = make_reader(c.rcfg, &c.image);
    let mut wh = make_writer(WCfg { e, w: c.ww, be: WBackend::Rec(None) });
    // source prefix (not judged here: C02's business)
    for op in &c.prefix {
        let r = match op {
            ROp::Read(n) => guard(|| rh.r.read_bits(*n).map(|_| ())),
            ROp::Peek(n) => guard(|| rh.r.peek_bits(*n).map(|_| ())),
            ROp::Skip(n) => guard(|| rh.r.skip_bits(*n)),
            _ => Out::Ok(()),
        };
        if !r.is_ok() {
            rep.count("prefix_failed", 1);
            return;
        }
    }
    let p0 = pos_after(&c.prefix);
    let sfill0 = rh.log.as_ref().map(|l| (l.borrow().reads as usize * rw).saturating_sub(p0)).unwrap_or(0);
    // destination prefix (clean and dirty writes, codes, mid-stream flush): judged by C01, here
    // it only brings the writer's buffer into a realistic state
    let mut dbits: Bits = vec![];
    for op in &c.dst_pre {
        model_apply(&mut dbits, e, c.ww.bits(), op);
        let r = match op {
            WOp::Bits(v, n) => guard(|| wh.w.write_bits(*v, *n)),
            WOp::Unary(x) => guard(|| wh.w.write_unary(*x)),
            WOp::Code(cop, v) => guard(|| wh.w.write_code(*cop, *v)),
            _ => guard(|| wh.w.flush()),
        };
        if !r.is_ok() {
            rep.count("destination_prefix_failed", 1);
            return;
        }
    }
    let mut p0 = p0;
    if let Some(n0) = c.n0 {
        if p0 + n0 as usize > bits.len() {
            return;
        }
        rep.eval(1);
        let r = do_copy(Path::ReaderCopyTo, e, rh.r.as_mut(), wh.w.as_mut(), n0);
        if !r.is_ok() {
            rep.violation(&format!("{}|{}|{}|first-copy|{}", e.name(), c.rcfg.kind.name(), c.ww.name(), r.class()), || format!("first copy of {} bits returned {}", n0, r.show()), || c.to_kv());
            return;
        }
        dbits.extend_from_slice(&bits[p0..p0 + n0 as usize]);
        p0 += n0 as usize;
    }
    let dst_fill = dbits.len() % c.ww.bits();
    let dst_pre_len = dbits.len();
    let sfill = if c.n0.is_some() { rh.log.as_ref().map(|l| (l.borrow().reads as usize * rw).saturating_sub(p0)).unwrap_or(0) } else { sfill0 };
    if p0 + c.n as usize + c.n2.unwrap_or(0) as usize > bits.len() {
        rep.count("case_beyond_data", 1);
        return;
    }
    let sig = format!("{}|{}|{}|{}|{}", e.name(), c.rcfg.kind.name(), c.ww.name(), c.path.name(), n_class(c.n, sfill, rw));
    let kvf = || c.to_kv();
    rep.eval(1);
    let r = do_copy(c.path, e, rh.r.as_mut(), wh.w.as_mut(), c.n);
    if !r.is_ok() {
        rep.violation(&format!("{}|copy|{}", sig, r.class()), || format!("copy of {} bits (source fill {}, destination fill {}) returned {}", c.n, sfill, dst_fill, r.show()), kvf);
        return;
    }
    dbits.extend_from_slice(&bits[p0..p0 + c.n as usize]);
    let mut pos = p0 + c.n as usize;
    if c.n > 0 {
        let dclass = if dst_fill == 0 { 0 } else if dst_fill + 1 == c.ww.bits() { 2 } else { 1 };
        let dirty = c.dst_pre.iter().any(|o| !matches!(o, WOp::Bits(v, n) if *n == 64 || *v >> *n == 0));
        rep.case(&(e, c.rcfg.kind, c.ww, sfill, dclass, dirty, n_class(c.n, sfill, rw), c.path));
    }
    // source position
    rep.eval(1);
    match guard(|| rh.r.bit_pos().unwrap()) {
        Out::Ok(p) if p == pos as u64 => {}
        o => {
            rep.violation(&format!("{}|source-position", sig), || format!("after copying {} bits from bit {} the source reports position {} (expected {})", c.n, p0, o.show(), pos), kvf);
            return;
        }
    }
    // optional second copy through the other side's specialisation
    if let Some(n2) = c.n2 {
        let p2 = match c.path {
            Path::ReaderCopyTo => Path::WriterCopyFrom,
            Path::WriterCopyFrom => Path::ReaderCopyTo,
            Path::GenericTo => Path::ReaderCopyTo,
            Path::GenericFrom => Path::WriterCopyFrom,
        };
        rep.eval(1);
        let r = do_copy(p2, e, rh.r.as_mut(), wh.w.as_mut(), n2);
        if !r.is_ok() {
            rep.violation(&format!("{}|second-copy|{}", sig, r.class()), || format!("second copy of {} bits returned {}", n2, r.show()), kvf);
            return;
        }
        dbits.extend_from_slice(&bits[pos..pos + n2 as usize]);
        pos += n2 as usize;
    }
    // destination: continuation writes, then flush, then the whole image
    for op in &c.dst_cont {
        let exp = model_apply(&mut dbits, e, c.ww.bits(), op);
        let got = match op {
            WOp::Bits(v, n) => guard(|| wh.w.write_bits(*v, *n)),
            WOp::Unary(x) => guard(|| wh.w.write_unary(*x)),
            WOp::Code(cop, v) => guard(|| wh.w.write_code(*cop, *v)),
            _ => guard(|| wh.w.flush()),
        };
        rep.eval(1);
        if got != Out::Ok(exp) {
            rep.violation(&format!("{}|destination-continuation|{}", sig, got.class()), || format!("{} after the copy returned {} expected {}", op.to_string(), got.show(), exp), kvf);
            return;
        }
    }
    let pending = dbits.len() % c.ww.bits();
    let fl = guard(|| wh.w.flush());
    let img = image(&dbits, e, c.ww.bytes());
    let got = wh.w.delivered().unwrap_or_default();
    rep.eval(1);
    if fl != Out::Ok(pending) || got != img {
        let gb = bits_of_image(&got, e);
        let first = (0..dbits.len().min(gb.len())).find(|i| gb[*i] != dbits[*i]);
        let region = match first {
            Some(f) if f < dst_pre_len => "prefill",
            Some(f) if f < dst_pre_len + c.n as usize => "copied",
            Some(_) => "after-copy",
            None => "length",
        };
        rep.violation(
            &format!("{}|destination-{}", sig, region),
            || format!("copy of {} bits (source at bit {}, fill {}; destination fill {}): destination {} (flush {}) but bit-by-bit transfer gives {}; first differing bit {:?}", c.n, p0, sfill, dst_fill, hex(&got), fl.show(), hex(&img), first),
            kvf,
        );
        return;
    }
    // source: continuation reads compared with the model
    let out = run_ops("C08", &mut rh, &bits, pos, &c.src_cont, rep, false, &kvf);
    if out.completed {
        rep.sample(|| c.to_kv());
    }
}

/// A copy that asks for more bits than a strict source holds must fail, and must not leave the source
/// able to hand out bits that do not exist: after the failure the source is read one bit at a time
/// until it errs, and the number of bits obtained that way cannot exceed what was there before the
/// copy minus what reached the destination.
pub fn check_overshoot(tag: &str, rcfg: RCfg, image: &[u8], prefix: &[ROp], ww: WWord, over: usize, path: Path, rep: &mut Report) {
    let e = rcfg.e;
    let rw = rcfg.kind.word_bits();
    let len = image.len() * 8;
    let mut rh = make_reader(rcfg, image);
    let mut wh = make_writer(WCfg { e, w: ww, be: WBackend::Rec(None) });
    for op in prefix {
        let r = match op {
            ROp::Read(n) => guard(|| rh.r.read_bits(*n).map(|_| ())),
            ROp::Peek(n) => guard(|| rh.r.peek_bits(*n).map(|_| ())),
            ROp::Skip(n) => guard(|| rh.r.skip_bits(*n)),
            _ => Out::Ok(()),
        };
        if !r.is_ok() {
            rep.count("prefix_failed", 1);
            return;
        }
    }
    let p0 = pos_after(prefix);
    if p0 > len {
        return;
    }
    let n = (len - p0 + over) as u64;
    let kvf = || format!("overshoot=1 rcfg={} image={} prefix={} ww={} over={} path={}", rcfg.name(), hex(image), rops_to_string(prefix), ww.name(), over, path.name());
    let sig = format!("{}|{}|{}|{}|overshoot", e.name(), rcfg.kind.name(), ww.name(), path.name());
    rep.eval(1);
    let r = do_copy(path, e, rh.r.as_mut(), wh.w.as_mut(), n);
    match &r {
        Out::Ok(()) => {
            rep.violation(&format!("{}|error-not-reported", sig), || format!("copy of {} bits from bit {} of a strict {}-bit source returned Ok", n, p0, len), kvf);
            return;
        }
        Out::Panic(p) => {
            rep.violation(&format!("{}|panic[{}]", sig, panic_kind(p)), || format!("copy of {} bits from bit {} of a strict {}-bit source panicked: {}", n, p0, len, p), kvf);
            return;
        }
        Out::Err(_) => {}
    }
    // what reached the destination
    let pending = guard(|| wh.w.flush());
    let delivered = wh.w.delivered().unwrap_or_default().len() * 8;
    let dst_bits = match pending {
        Out::Ok(0) => delivered,
        Out::Ok(p) => delivered + p - ww.bits(),
        _ => return,
    };
    // what the source still hands out
    let mut obtained = 0usize;
    let cap = len + 4 * rw + 200;
    while obtained <= cap {
        match guard(|| rh.r.read_bits(1)) {
            Out::Ok(_) => obtained += 1,
            Out::Err(_) => break,
            Out::Panic(p) => {
                rep.violation(&format!("{}|read-after-failure|panic[{}]", sig, panic_kind(&p)), || format!("read_bits(1) after the failed copy panicked: {}", p), kvf);
                return;
            }
        }
    }
    rep.eval(1);
    rep.case(&(tag.to_string(), e, rcfg.kind, ww, path, over.min(rw + 1), (len - p0) % rw, rcfg.be.name()));
    if obtained + dst_bits > len - p0 {
        rep.violation(
            &format!("{}|fabricated-after-failed-copy", sig),
            || format!("{} bits were left in a strict source; the failed copy of {} bits delivered {} bits to the destination, yet {} more bits could then be read from the source: {} bits do not exist", len - p0, n, dst_bits, obtained, obtained + dst_bits - (len - p0)),
            kvf,
        );
    }
}

pub fn src_conts(kind: RKind, rep: &mut Report) -> Vec<Vec<ROp>> {
    let lim = kind.peek_limit();
    let w = kind.word_bits();
    let mut v: Vec<Vec<ROp>> = vec![
        vec![ROp::Pos, ROp::Read(64), ROp::Pos],
        vec![ROp::Peek(lim), ROp::Read(17), ROp::Unary, ROp::Pos],
        vec![ROp::Read(1), ROp::Read(1), ROp::Read(w.min(64)), ROp::Peek(lim.min(12)), ROp::Read(40)],
        vec![ROp::Skip(w + 1), ROp::Read(20), ROp::Pos],
        vec![ROp::Unary, ROp::Unary, ROp::Read(33)],
        vec![ROp::Peek(lim.min(9)), ROp::Read(w.min(64)), ROp::Peek(lim.min(9)), ROp::Read(9)],
        vec![ROp::CloneSwitch, ROp::Read(33), ROp::Pos],
    ];
    for cop in [CodeOp::GammaP(true), CodeOp::DeltaP(true, true), CodeOp::Zeta3P(true), CodeOp::Std(Code::Delta), CodeOp::Zeta3Def, CodeOp::Std(Code::Omega)] {
        if let Ok(true) = diag::tables_allowed(kind, &cop) {
            v.push(vec![ROp::Code(cop), ROp::Code(cop), ROp::Read(30), ROp::Pos]);
        } else {
            rep.note(format!("{}: continuation {} not exercised (look-ahead diagnostic)", kind.name(), cop.name()));
        }
    }
    v
}

pub fn dst_conts(rng: &mut Rng) -> Vec<Vec<WOp>> {
    vec![
        vec![],
        vec![WOp::Bits(rng.next(), 64)],
        vec![WOp::Bits(1, 1), WOp::Unary(5)],
        vec![WOp::Unary(130)],
        vec![WOp::Code(CodeOp::GammaP(false), 1234567), WOp::Bits(rng.next() & 0x1fff, 13)],
        vec![WOp::Flush, WOp::Bits(rng.next() & 0x7f, 7)],
    ]
}

/// Destination operations before the copy that end at fill level `fill`, from a
/// rotating set of templates: clean writes, writes with garbage above the field,
/// a table-free gamma (passes a dirty argument to write_bits), a mid-stream flush,
/// a long unary.
pub fn dst_prefix(fill: usize, wbits: usize, template: usize, rng: &mut Rng, e: En) -> Vec<WOp> {
    let mut ops: Vec<WOp> = match template % 6 {
        0 => vec![],
        1 => vec![WOp::Bits(rng.next() | 0xFFFF_0000_0000_0000, 5)],
        2 => vec![WOp::Code(CodeOp::GammaP(false), (1u64 << (20 + rng.below(30))) + (rng.next() & 0xFFFFF))],
        3 => vec![WOp::Bits(rng.next(), 13), WOp::Flush],
        4 => vec![WOp::Unary(70 + rng.below(70))],
        _ => vec![WOp::Code(CodeOp::DeltaP(false, false), rng.next() >> 3), WOp::Code(CodeOp::Std(Code::Omega), rng.next() >> 9)],
    };
    let mut bits: Bits = vec![];
    for op in &ops {
        model_apply(&mut bits, e, wbits, op);
    }
    let cur = bits.len() % wbits;
    let mut left = (fill + wbits - cur) % wbits;
    let dirty = template % 2 == 1 || template % 6 == 0 && template % 4 == 2;
    while left > 0 {
        let m = left.min(64).min(1 + rng.below(64) as usize);
        let mut v = rng.next();
        if !dirty && m < 64 {
            v &= (1u64 << m) - 1;
        }
        ops.push(WOp::Bits(v, m));
        left -= m;
    }
    ops
}

pub fn n_values(tier: Tier, rng: &mut Rng) -> Vec<u64> {
    let max = 4 * 128 + 3;
    match tier {
        Tier::Thorough => (0..=max).collect(),
        Tier::Quick => {
            let mut v: Vec<u64> = (0..=72).collect();
            for b in [96u64, 128, 160, 192, 256, 320, 384, 512] {
                for d in [-2i64, -1, 0, 1, 2] {
                    v.push((b as i64 + d) as u64);
                }
            }
            for _ in 0..60 {
                v.push(rng.below(max + 1));
            }
            v.push(max);
            v.sort_unstable();
            v.dedup();
            v
        }
        Tier::Tiny => vec![0, 1, 63, 70, 200],
    }
}

pub fn run(ctx: &Ctx) -> Report {
    let mut work: Vec<(En, RKind, WWord)> = vec![];
    for e in En::BOTH {
        for k in RKind::ALL {
            for w in WWord::ALL {
                work.push((e, k, w));
            }
        }
    }
    par_items(ctx, "C08", &work, |&(e, kind, ww), rep| {
        // one copy of more than 2^32 bits per (endianness, word combination, path), between sparse streams
        if ctx.tier != Tier::Tiny && kind == RKind::Buf64 {
            let combo = WWord::ALL.iter().position(|x| *x == ww).unwrap();
            if combo < 4 && (ctx.tier == Tier::Thorough || combo < 2) {
                for path in [0u8, 1] {
                    super::huge::check_copy(e, combo, (1u64 << 32) + 77 + (ctx.seed % 50), path, rep);
                }
            }
        }
        let rw = kind.word_bits();
        let rwb = rw / 8;
        let mut rng = Rng::derive(ctx.seed, crate::report::hash_of(&(0xC08u64, e, kind, ww)));
        let sconts = src_conts(kind, rep);
        let dconts = dst_conts(&mut rng);
        let nbytes = ((2 * rw + 520 + 520 + 400) / 8).div_ceil(rwb) * rwb;
        let states: Vec<Vec<ROp>> = if kind.buffered() {
            let fs: Vec<usize> = match ctx.tier {
                Tier::Thorough => (0..2 * rw).collect(),
                Tier::Quick => {
                    let mut f = vec![0, 1, 2, rw / 2, rw - 1, rw, rw + 1, rw + rw / 2, 2 * rw - 2, 2 * rw - 1];
                    if rw == 64 {
                        f.extend([63, 65, 66, 70, 74, 100, 126]);
                    }
                    for _ in 0..4 {
                        f.push(rng.below(2 * rw as u64) as usize);
                    }
                    f.sort_unstable();
                    f.dedup();
                    f
                }
                Tier::Tiny => vec![0, rw - 1, 2 * rw - 1],
            };
            let mut s: Vec<Vec<ROp>> = fs.into_iter().map(|f| fill_prefix(f, rw)).collect();
            s.push(vec![ROp::Read(rw.min(64))]);
            s
        } else {
            [0usize, 1, 31, 32, 63, 64, 65].iter().map(|o| if *o == 0 { vec![] } else { vec![ROp::Skip(*o)] }).collect()
        };
        let dfills: Vec<usize> = match ctx.tier {
            Tier::Thorough => {
                let mut d: Vec<usize> = vec![0, 1, 2, ww.bits() / 2 - 1, ww.bits() / 2, ww.bits() / 2 + 1, ww.bits() - 2, ww.bits() - 1];
                for _ in 0..4 {
                    d.push(rng.below(ww.bits() as u64) as usize);
                }
                d.sort_unstable();
                d.dedup();
                d
            }
            Tier::Quick => vec![0, 1, ww.bits() / 2, ww.bits() - 1, rng.below(ww.bits() as u64) as usize],
            Tier::Tiny => vec![0, ww.bits() - 1],
        };
        let ns = n_values(ctx.tier, &mut rng);
        let pats = [Pattern::Random, Pattern::Ones, Pattern::Zeros, Pattern::Sparse];
        let images: Vec<Vec<u8>> = pats.iter().map(|p| super::readhist::random_image(&mut rng, *p, nbytes, e)).collect();
        let mut ci = 0usize;
        for (si, prefix) in states.iter().enumerate() {
            for &df in &dfills {
                for &n in &ns {
                    // paths: all of them in thorough, rotating in quick (each (state, n) sees every path over the dst fills)
                    let paths: Vec<Path> = if ctx.tier == Tier::Thorough { Path::ALL.to_vec() } else { vec![Path::ALL[ci % 4], Path::ALL[(ci + 1 + si) % 4]] };
                    for path in paths {
                        let img = &images[if ci % 11 < 8 { 0 } else { 1 + ci % 3 }];
                        let be = [RBackend::RecZ, RBackend::RecS][ci % 2];
                        let n2 = if ci % 5 == 0 { Some(1 + rng.below(200)) } else { None };
                        let case = Case {
                            rcfg: RCfg { e, kind, be },
                            image: img.clone(),
                            prefix: prefix.clone(),
                            ww,
                            dst_pre: dst_prefix(df, ww.bits(), ci, &mut rng, e),
                            n0: if ci % 7 == 3 { Some(1 + rng.below(90)) } else { None },
                            n,
                            path,
                            n2,
                            src_cont: sconts[ci % sconts.len()].clone(),
                            dst_cont: dconts[(ci / 3) % dconts.len()].clone(),
                        };
                        check_case(&case, rep);
                        ci += 1;
                    }
                }
            }
        }
        // copies that end exactly at the end of a strict source (every bit is there: must succeed), and
        // copies that overshoot it by less / more than a word (must fail without fabricating bits)
        if ctx.tier != Tier::Tiny {
            for (si, prefix) in states.iter().enumerate() {
                let p0 = pos_after(prefix);
                let base = (p0.div_ceil(rw)).max(if kind.buffered() { 2 } else { 1 });
                for k in [0usize, 1, 2, 5] {
                    let total = base + k;
                    if total * rw <= p0 {
                        continue;
                    }
                    let n = (total * rw - p0) as u64;
                    let img: Vec<u8> = images[(si + k) % 2][..total * rwb].to_vec();
                    for (pi, path) in Path::ALL.iter().enumerate() {
                        if ctx.tier != Tier::Thorough && (si + k + pi) % 2 == 1 && pi >= 2 {
                            continue;
                        }
                        let be = RBackend::STRICT[(si + k + pi) % RBackend::STRICT.len()];
                        let df = dfills[(si + k + pi) % dfills.len()];
                        let case = Case {
                            rcfg: RCfg { e, kind, be },
                            image: img.clone(),
                            prefix: prefix.clone(),
                            ww,
                            dst_pre: dst_prefix(df, ww.bits(), si + k, &mut rng, e),
                            n0: None,
                            n,
                            path: *path,
                            n2: None,
                            src_cont: vec![ROp::Pos],
                            dst_cont: dconts[(si + pi) % dconts.len()].clone(),
                        };
                        check_case(&case, rep);
                        rep.count("copies_ending_exactly_at_the_end_of_a_strict_source", 1);
                        for over in [1usize, rw / 2, rw - 1, rw, rw + 3] {
                            if over == 0 || (ctx.tier != Tier::Thorough && (si + over + pi) % 3 != 0) {
                                continue;
                            }
                            check_overshoot("C08", RCfg { e, kind, be }, &img, prefix, ww, over, *path, rep);
                        }
                    }
                }
            }
        }
        // other source backends (library ones), sampled
        for _ in 0..ctx.pick(2, 1500, 8000) {
            let be = *rng.pick(&RBackend::ALL);
            let prefix = rng.pick(&states).clone();
            let case = Case {
                rcfg: RCfg { e, kind, be },
                image: images[0].clone(),
                prefix,
                ww,
                dst_pre: {
                    let d = rng.below(ww.bits() as u64) as usize;
                    let t = rng.below(100) as usize;
                    dst_prefix(d, ww.bits(), t, &mut rng, e)
                },
                n0: None,
                n: *rng.pick(&ns),
                path: *rng.pick(&Path::ALL),
                n2: None,
                src_cont: rng.pick(&sconts).clone(),
                dst_cont: rng.pick(&dconts).clone(),
            };
            check_case(&case, rep);
        }
        if ctx.tier == Tier::Thorough {
            rep.exhaustive(&format!("{}/{}/{}: every source fill level x every n in 0..=515 x every copy path", e.name(), kind.name(), ww.name()));
        }
    })
}

pub fn replay(case: &str, rep: &mut Report) {
    if case.starts_with("huge=") {
        return super::huge::replay(case, rep);
    }
    if case.starts_with("overshoot=") {
        let kv = Kv::parse(case);
        let ww = *WWord::ALL.iter().find(|w| w.name() == kv.get("ww")).unwrap();
        check_overshoot("C08", parse_rcfg(kv.get("rcfg")), &unhex(kv.get("image")), &parse_rops(kv.get("prefix")), ww, kv.usize("over"), Path::parse(kv.get("path")), rep);
        return;
    }
    check_case(&Case::from_kv(case), rep);
}
