//! Engine shared by C02 and C07 (and used by others): run a history of reader
//! operations on a real reader and compare every observable result with the
//! model cursor over the byte image.

use super::common::*;
use crate::drivers::*;
use crate::model::*;
use crate::report::{hex, unhex, Kv, Report};
use crate::rng::Rng;

#[derive(Clone, Debug)]
pub struct RCase {
    pub cfg: RCfg,
    pub image: Vec<u8>,
    pub ops: Vec<ROp>,
}

impl RCase {
    pub fn to_kv(&self) -> String {
        format!("cfg={} image={} ops={}", self.cfg.name(), hex(&self.image), rops_to_string(&self.ops))
    }
    pub fn from_kv(s: &str) -> RCase {
        let kv = Kv::parse(s);
        RCase { cfg: parse_rcfg(kv.get("cfg")), image: unhex(kv.get("image")), ops: parse_rops(kv.get("ops")) }
    }
}

/// Model-side effect of an op at `pos`: expected value (if any) and the new
/// position; None when the op is out of domain there (needs bits beyond a
/// strict end, unary that never terminates, undecodable code, ...).
#[derive(Clone, Debug, PartialEq)]
pub enum Expect {
    Value(u64, usize),
    Unit(usize),
    Bytes(Vec<u8>, usize),
}

pub fn model_step(bits: &[u8], pos: usize, e: En, zext: bool, op: &ROp) -> Option<Expect> {
    let len = bits.len();
    let within = |n: usize| zext || pos + n <= len;
    match op {
        ROp::Read(n) => {
            if !within(*n) {
                return None;
            }
            Some(Expect::Value(get_bits_zext(bits, pos, *n, e), pos + n))
        }
        ROp::Peek(n) => {
            if !within(*n) {
                return None;
            }
            Some(Expect::Value(get_bits_zext(bits, pos, *n, e), pos))
        }
        ROp::Skip(n) => {
            if !within(*n) {
                return None;
            }
            Some(Expect::Unit(pos + n))
        }
        ROp::Unary => {
            let x = get_unary(bits, pos.min(len))?;
            if pos > len {
                return None;
            }
            Some(Expect::Value(x, pos + x as usize + 1))
        }
        ROp::Code(cop) => {
            if pos > len {
                return None;
            }
            // the codeword must lie entirely within the data (also for zero-extended
            // streams: codes that run into the extension are C09's business)
            let (v, np) = decode(bits, pos, e, cop.code())?;
            Some(Expect::Value(v, np))
        }
        ROp::IoRead(n) => {
            if !within(8 * n) {
                return None;
            }
            let bytes = (0..*n).map(|k| get_bits_zext(bits, pos + 8 * k, 8, e) as u8).collect();
            Some(Expect::Bytes(bytes, pos + 8 * n))
        }
        ROp::Pos => Some(Expect::Value(pos as u64, pos)),
        ROp::Seek(p) => {
            if *p as usize > len {
                return None;
            }
            Some(Expect::Unit(*p as usize))
        }
        ROp::CloneSwitch => Some(Expect::Unit(pos)),
        ROp::PeekSkip(k, n) => {
            if !within(*k) || n > k {
                return None;
            }
            Some(Expect::Value(get_bits_zext(bits, pos, *k, e), pos + n))
        }
        ROp::PastEnd => {
            if zext || pos + 64 <= len {
                None
            } else {
                Some(Expect::Unit(pos))
            }
        }
    }
}

fn fill_class(fill: Option<usize>, w: usize) -> &'static str {
    match fill {
        None => "na",
        Some(0) => "empty",
        Some(f) if f < w => "lt-word",
        Some(f) if f == w => "eq-word",
        Some(_) => "gt-word",
    }
}

pub struct Outcome {
    /// false if the history was cut short by a violation
    pub completed: bool,
    pub final_pos: usize,
}

/// Run the history on a fresh reader. `track_fill`: derive the reader's buffer fill
/// level from the recording backend (valid while no clone/seek happened) and record coverage.
pub fn check(prop_tag: &str, c: &RCase, rep: &mut Report, track_fill: bool) -> Outcome {
    let e = c.cfg.e;
    let wbits = c.cfg.kind.word_bits();
    // a byte source whose length is not a multiple of the word size (byte adapters only): the
    // stream is its whole words, the trailing partial word can only make a read fail
    let aligned = c.image.len() - c.image.len() % (wbits / 8);
    let bits = bits_of_image(&c.image[..aligned], e);
    let mut h = if aligned == c.image.len() { make_reader(c.cfg, &c.image) } else { make_reader_unaligned(c.cfg, &c.image) };
    let kv = || c.to_kv();
    let out = run_ops(prop_tag, &mut h, &bits, 0, &c.ops, rep, track_fill, &kv);
    if out.completed {
        rep.sample(|| format!("{} ; final position {}", c.to_kv(), out.final_pos));
    }
    // unwrap the reader through the library's into_inner (the second unsafe block of the crate)
    let r = h.r;
    if let Out::Panic(p) = guard_v(move || r.consume()) {
        rep.violation(&format!("{}|{}|into_inner|panic[{}]", c.cfg.e.name(), c.cfg.kind.name(), panic_kind(&p)), || format!("into_inner of the reader panicked: {}", p), &kv);
    }
    out
}

/// Continue a history on an existing reader whose model position is `start`.
#[allow(clippy::too_many_arguments)]
pub fn run_ops(prop_tag: &str, h: &mut ReaderHandle, bits: &[u8], start: usize, ops: &[ROp], rep: &mut Report, track_fill: bool, case_kv: &dyn Fn() -> String) -> Outcome {
    let cfg = h.cfg;
    let e = cfg.e;
    let zext = cfg.be.zext();
    let wbits = cfg.kind.word_bits();
    let log = h.log.clone();
    let mut pos: usize = start;
    let mut fill_valid = track_fill && log.is_some() && cfg.kind.buffered();
    let mut parked: Vec<(Box<dyn DynReader>, usize)> = vec![];
    let sigbase = format!("{}|{}|{}", e.name(), cfg.kind.name(), if zext { "zext" } else { "strict" });
    let be_name = cfg.be.name();
    let mut lost = false; // after a read past the end the state is unspecified until a seek
    for (i, op) in ops.iter().enumerate() {
        if lost && !matches!(op, ROp::Seek(_)) {
            continue;
        }
        let exp = match model_step(bits, pos, e, zext, op) {
            Some(x) => x,
            None => {
                rep.count("ops_skipped_out_of_domain", 1);
                continue;
            }
        };
        let fill: Option<usize> = if fill_valid {
            let l = log.as_ref().unwrap().borrow();
            let fetched = l.reads as usize * wbits;
            if fetched >= pos {
                Some(fetched - pos)
            } else {
                None
            }
        } else {
            None
        };
        if let Some(l) = &log {
            let mut l = l.borrow_mut();
            l.calls_this_op = 0;
            let need = match (&exp, op) {
                (Expect::Value(_, np), _) | (Expect::Unit(np), _) | (Expect::Bytes(_, np), _) => np.saturating_sub(pos),
            };
            l.budget = 64 + 4 * (need / wbits) as u64;
        }
        if let Some(f) = fill {
            rep.cover(&format!("fill/{}/{}", e.name(), cfg.kind.name()), f as u64);
        }
        let n_of = match op {
            ROp::Read(n) | ROp::Peek(n) | ROp::Skip(n) | ROp::IoRead(n) => *n as u64,
            ROp::PeekSkip(k, n) => (*k * 100 + *n) as u64,
            ROp::Seek(p) => *p % wbits as u64,
            _ => 0,
        };
        rep.case(&(prop_tag, e, cfg.kind, be_name, fill.unwrap_or(usize::MAX), op.kind(), n_of));
        rep.eval(1);
        let fc = fill_class(fill, wbits);
        macro_rules! fail {
            ($what:expr, $class:expr) => {{
                let class: String = $class;
                rep.violation(
                    &format!("{}|{}|{}|fill-{}", sigbase, op.kind(), class, fc),
                    || format!("op #{} {} at bit {} (fill {:?}, backend {}): {}", i, op.to_string(), pos, fill, be_name, $what),
                    || case_kv(),
                );
                return Outcome { completed: false, final_pos: pos };
            }};
        }
        match op {
            ROp::Read(n) => match (guard(|| h.r.read_bits(*n)), &exp) {
                (Out::Ok(v), Expect::Value(x, _)) if v == *x => {}
                (o, _) => fail!(format!("got {} expected {:?}", o.show(), exp), if o.is_ok() { "wrong-value".into() } else { o.class() }),
            },
            ROp::Peek(n) => {
                match (guard(|| h.r.peek_bits(*n)), &exp) {
                    (Out::Ok(v), Expect::Value(x, _)) if v == *x => {}
                    (o, _) => fail!(format!("got {} expected {:?}", o.show(), exp), if o.is_ok() { "wrong-value".into() } else { o.class() }),
                }
                // repeatable
                match (guard(|| h.r.peek_bits(*n)), &exp) {
                    (Out::Ok(v), Expect::Value(x, _)) if v == *x => {}
                    (o, _) => fail!(format!("second peek got {} expected {:?}", o.show(), exp), format!("not-repeatable-{}", o.class())),
                }
                // a peek may refill: the fill level derived from the log stays valid
            }
            ROp::Skip(n) => match guard(|| h.r.skip_bits(*n)) {
                Out::Ok(()) => {}
                o => fail!(format!("got {}", o.show()), o.class()),
            },
            ROp::Unary => match (guard(|| h.r.read_unary()), &exp) {
                (Out::Ok(v), Expect::Value(x, _)) if v == *x => {}
                (o, _) => fail!(format!("got {} expected {:?}", o.show(), exp), if o.is_ok() { "wrong-value".into() } else { o.class() }),
            },
            ROp::Code(cop) => match (guard(|| h.r.read_code(*cop)), &exp) {
                (Out::Ok(v), Expect::Value(x, _)) if v == *x => {}
                (o, _) => fail!(
                    format!("{} got {} expected {:?}", cop.name(), o.show(), exp),
                    format!("{}-{}", cop.code().family(), if o.is_ok() { "wrong-value".into() } else { o.class() })
                ),
            },
            ROp::IoRead(n) => match (guard(|| h.r.io_read(*n).unwrap_or(Err("no io::Read".into()))), &exp) {
                (Out::Ok(v), Expect::Bytes(x, _)) if v == *x => {}
                (o, _) => fail!(format!("got {} expected {:?}", o.show(), exp), if o.is_ok() { "wrong-bytes".into() } else { o.class() }),
            },
            ROp::Pos => match guard(|| h.r.bit_pos().unwrap_or(Err("not seekable".into()))) {
                Out::Ok(p) if p == pos as u64 => {}
                o => fail!(format!("bit_pos() = {} but {} bits precede the next bit", o.show(), pos), if o.is_ok() { "wrong-pos".into() } else { o.class() }),
            },
            ROp::Seek(p) => {
                match guard(|| h.r.set_bit_pos(*p).unwrap_or(Err("not seekable".into()))) {
                    Out::Ok(()) => {}
                    o => fail!(format!("set_bit_pos({}) = {} (stream has {} bits)", p, o.show(), bits.len()), o.class()),
                }
                fill_valid = false;
                lost = false;
            }
            ROp::PeekSkip(k, n) => {
                match (guard(|| h.r.peek_bits(*k)), &exp) {
                    (Out::Ok(v), Expect::Value(x, _)) if v == *x => {}
                    (o, _) => fail!(format!("peek got {} expected {:?}", o.show(), exp), if o.is_ok() { "wrong-value".into() } else { o.class() }),
                }
                if let Out::Panic(p) = guard(|| {
                    h.r.skip_after_peek(*n);
                    Ok(())
                }) {
                    fail!(format!("skip_bits_after_peek({}) panicked: {}", n, p), format!("panic[{}]", panic_kind(&p)));
                }
            }
            ROp::PastEnd => {
                // only a panic is judged here (whether it errs is C09's property)
                if let Out::Panic(p) = guard(|| h.r.read_bits(64)) {
                    fail!(format!("read past the end panicked: {}", p), format!("panic[{}]", panic_kind(&p)));
                }
                lost = true;
                fill_valid = false;
            }
            ROp::CloneSwitch => match h.r.try_clone() {
                Some(cl) => {
                    let old = std::mem::replace(&mut h.r, cl);
                    parked.push((old, pos));
                    fill_valid = false;
                }
                None => {
                    rep.count("clone_unsupported", 1);
                }
            },
        }
        pos = match exp {
            Expect::Value(_, np) | Expect::Unit(np) | Expect::Bytes(_, np) => np,
        };
    }
    // parked originals must still be where they were when cloned
    for (mut r, p) in parked {
        let n = 24usize;
        if !zext && p + n > bits.len() {
            continue;
        }
        rep.eval(1);
        let exp = get_bits_zext(bits, p, n, e);
        let got = guard(|| r.read_bits(n));
        if got != Out::Ok(exp) {
            rep.violation(
                &format!("{}|clone|original-disturbed|{}", sigbase, got.class()),
                || format!("original reader cloned at bit {} later read {} expected {:#x}", p, got.show(), exp),
                || case_kv(),
            );
            return Outcome { completed: false, final_pos: pos };
        }
    }
    Outcome { completed: true, final_pos: pos }
}

/// Random image of `nwords` words of the given pattern (whole stream).
pub fn random_image(rng: &mut Rng, pat: crate::rng::Pattern, nbytes: usize, e: En) -> Vec<u8> {
    let bits = pat.bits(rng, nbytes * 8);
    image(&bits, e, 1)
}

/// Generate a random in-domain history by simulating the model alongside.
pub struct GenOpts {
    pub seeks: bool,
    pub io: bool,
    pub codes: bool,
    pub clones: bool,
    pub pos: bool,
    pub max_read_code_len: usize,
}

pub fn gen_history(rng: &mut Rng, cfg: RCfg, image: &[u8], len: usize, o: &GenOpts, code_ops: &[CodeOp]) -> Vec<ROp> {
    let e = cfg.e;
    let zext = cfg.be.zext();
    let bits = bits_of_image(image, e);
    let w = cfg.kind.word_bits();
    let mut pos = 0usize;
    let mut ops = vec![];
    let total = bits.len();
    let mut tries = 0;
    while ops.len() < len && tries < len * 6 {
        tries += 1;
        let r = rng.below(100);
        let op = if r < 30 {
            let n = match rng.below(7) {
                0 => *rng.pick(&[0usize, 1, 63, 64, w.min(64), (w + 1).min(64)]),
                // a read ending exactly at the end of the data
                6 if total >= pos && total - pos <= 64 => total - pos,
                _ => rng.below(65) as usize,
            };
            ROp::Read(n)
        } else if r < 45 {
            ROp::Peek(1 + rng.below(cfg.kind.peek_limit() as u64) as usize)
        } else if r < 47 {
            let k = 1 + rng.below(cfg.kind.peek_limit() as u64) as usize;
            ROp::PeekSkip(k, rng.below(k as u64 + 1) as usize)
        } else if r < 57 {
            // a quarter of the skips end exactly at the end of the data or exactly on a later word
            // boundary: a skip that fetches one word too many is invisible everywhere else
            let n = match rng.below(8) {
                0 if total >= pos && total - pos <= 6 * w => total - pos,
                1 => (pos / w + 1 + rng.below(3) as usize) * w - pos,
                2 | 3 | 4 => rng.below(3 * w as u64 + 3) as usize,
                _ => rng.below(20) as usize,
            };
            ROp::Skip(n)
        } else if r < 69 {
            ROp::Unary
        } else if r < 74 && o.clones {
            ROp::CloneSwitch
        } else if r < 80 && o.pos {
            ROp::Pos
        } else if r < 88 && o.seeks {
            let p = match rng.below(4) {
                0 => (rng.below(total as u64 / w as u64 + 1) * w as u64).min(total as u64),
                1 => total as u64 - rng.below((total as u64).min(w as u64 + 2)),
                _ => rng.below(total as u64 + 1),
            };
            ROp::Seek(p)
        } else if r < 93 && o.io {
            ROp::IoRead(rng.below(20) as usize)
        } else if o.codes && !code_ops.is_empty() {
            ROp::Code(*rng.pick(code_ops))
        } else {
            ROp::Read(rng.below(65) as usize)
        };
        if !zext && o.seeks && rng.chance(1, 10) && pos + 64 > total {
            ops.push(ROp::PastEnd);
            let p = rng.below(total as u64 + 1);
            ops.push(ROp::Seek(p));
            pos = p as usize;
            continue;
        }
        // keep zero-extended positions from running away too far
        if zext && pos > total + 4 * w {
            if o.seeks {
                let p = rng.below(total as u64 + 1);
                ops.push(ROp::Seek(p));
                pos = p as usize;
            } else {
                break;
            }
            continue;
        }
        match model_step(&bits, pos, e, zext, &op) {
            Some(Expect::Value(_, np)) | Some(Expect::Unit(np)) | Some(Expect::Bytes(_, np)) => {
                if let ROp::Code(_) = op {
                    if np - pos > o.max_read_code_len {
                        continue;
                    }
                }
                if let ROp::Unary = op {
                    if np - pos > 6 * w + 70 {
                        continue;
                    }
                }
                pos = np;
                ops.push(op);
            }
            None => {
                if !zext && o.seeks && rng.chance(1, 2) {
                    let p = rng.below(total as u64 + 1);
                    ops.push(ROp::Seek(p));
                    pos = p as usize;
                }
            }
        }
    }
    ops
}
