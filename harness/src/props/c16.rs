//! C16 — code names and identifiers round-trip.

use super::c10::{codes_of, const_names};
use crate::backends::*;
use crate::drivers::*;
use crate::model::*;
use crate::report::{hex, Kv, Report};
use crate::rng::Rng;
use crate::{par_items, Ctx, Tier};
use dsi_bitstream::prelude::*;

/// bytes of the codewords of a few values, through the enum dispatch (None = the code cannot write them)
fn codewords(c: Codes, e: En, values: &[u64]) -> Out<Vec<u8>> {
    macro_rules! go {
        ($E:ty) => {{
            guard(|| {
                let mut w = BufBitWriter::<$E, _>::new(MemWordWriterVec::new(Vec::<u64>::new()));
                for v in values {
                    c.write(&mut w, *v).map_err(|e| e.to_string())?;
                }
                Ok(bytes_from_words(&w.into_inner().map_err(|e| e.to_string())?.into_inner()))
            })
        }};
    }
    match e {
        En::BE => go!(BE),
        En::LE => go!(LE),
    }
}

fn const_codewords(id: usize, e: En, values: &[u64]) -> Out<Vec<u8>> {
    macro_rules! go {
        ($E:ty) => {{
            guard(|| {
                let mut w = BufBitWriter::<$E, _>::new(MemWordWriterVec::new(Vec::<u64>::new()));
                for v in values {
                    const_write::<$E, _>(id, &mut w, *v, false, false).map_err(|e| e.to_string())?;
                }
                Ok(bytes_from_words(&w.into_inner().map_err(|e| e.to_string())?.into_inner()))
            })
        }};
    }
    match e {
        En::BE => go!(BE),
        En::LE => go!(LE),
    }
}

const VALUES: [u64; 40] = [
    0, 1, 2, 3, 4, 5, 6, 7, 8, 9, 10, 11, 12, 13, 14, 15, 16, 17, 20, 31, 32, 33, 41, 62, 63, 64, 65, 100, 127, 128, 129, 255, 256, 1000, 1023, 1024, 4095, 4096, 65535, 70000,
];

fn values_for(c: &Codes) -> Vec<u64> {
    // keep unary-prefixed codewords short
    let cap = match c {
        Codes::Unary => 300,
        Codes::Rice { log2_b } => 300u64 << (*log2_b).min(20),
        Codes::Golomb { b } => 300u64.saturating_mul((*b as u64).max(1)),
        _ => u64::MAX,
    };
    VALUES.iter().cloned().filter(|v| *v <= cap).collect()
}

fn all_variants(params: &[usize]) -> Vec<Codes> {
    let mut v = vec![Codes::Unary, Codes::Gamma, Codes::Delta, Codes::Omega, Codes::VByteLe, Codes::VByteBe];
    for &p in params {
        v.push(Codes::Zeta { k: p });
        v.push(Codes::Pi { k: p });
        v.push(Codes::Golomb { b: p });
        v.push(Codes::ExpGolomb { k: p });
        v.push(Codes::Rice { log2_b: p });
    }
    v
}

/// can the code be exercised on a bit stream with this parameter? (zeta k>=1, golomb b>=1, shifts < 64)
fn writable(c: &Codes) -> bool {
    match c {
        Codes::Zeta { k } => *k >= 1 && *k <= 63,
        Codes::Pi { k } | Codes::ExpGolomb { k } => *k <= 63,
        Codes::Rice { log2_b } => *log2_b <= 63,
        Codes::Golomb { b } => *b >= 1,
        _ => true,
    }
}

#[derive(Clone, Copy, Debug, PartialEq, Eq, Hash)]
enum Item {
    Names,
    Malformed,
    Ids,
    Equality(usize),
}

pub fn run(ctx: &Ctx) -> Report {
    let mut work = vec![Item::Names, Item::Malformed, Item::Ids];
    let eqmax = if ctx.tier == Tier::Thorough { 40 } else { 16 };
    for i in 0..=eqmax {
        work.push(Item::Equality(i));
    }
    let mut rep = par_items(ctx, "C16", &work, |item, rep| match *item {
        Item::Names => {
            let mut params: Vec<usize> = (0..=if ctx.tier == Tier::Thorough { 2000 } else { 64 }).collect();
            params.extend([1000usize, u32::MAX as usize, 1usize << 32, usize::MAX]);
            for c in all_variants(&params) {
                let s = c.to_string();
                let kvf = || format!("clause=name text={}", s.replace(' ', "_"));
                rep.eval(1);
                rep.case(&("name", s.clone()));
                match guard(|| s.parse::<Codes>().map_err(|e| e.to_string())) {
                    Out::Ok(p) => {
                        if p != c || format!("{:?}", p) != format!("{:?}", c) {
                            rep.violation("name|different-code", || format!("{:?} prints as {:?} which parses as {:?}", c, s, p), kvf);
                        } else if writable(&c) {
                            for e in En::BOTH {
                                let vals = values_for(&c);
                                let a = codewords(c, e, &vals);
                                let b = codewords(p, e, &vals);
                                rep.eval(1);
                                if a != b {
                                    rep.violation("name|codewords-differ", || format!("{:?} and its parsed form {:?} write different bits", c, p), kvf);
                                }
                            }
                        }
                    }
                    o => rep.violation(&format!("name|parse-failed|{}", match &c { Codes::Zeta { .. } | Codes::Pi { .. } | Codes::Golomb { .. } | Codes::ExpGolomb { .. } | Codes::Rice { .. } => "parametric".to_string(), other => format!("{:?}", other) }), || format!("{:?} prints as {:?} which does not parse: {}", c, s, o.show()), kvf),
                }
            }
            rep.sample(|| format!("{:?} -> \"{}\" -> {:?}", Codes::Zeta { k: 3 }, Codes::Zeta { k: 3 }, "Zeta(3)".parse::<Codes>().ok()));
            rep.exhaustive("every Codes variant x parameter 0..=64 and {1000, 2^32-1, 2^32, usize::MAX}: Display -> FromStr");
        }
        Item::Malformed => {
            let mut bad: Vec<String> = vec![
                "", " ", "Foo", "gamma", "GAMMA", "Gamm", "Gammaa", "unary", "delta", "omega", "VByte", "VByteXe", "vbytebe", "Vbytele", "Zeta", "Zeta(", "Zeta()", "Zeta(-1)", "Zeta(x)", "Zeta(3x)", "Zeta(99999999999999999999999)",
                " Zeta(3)", "Zeta (3)", "zeta(3)", "ZETA(3)", "Zet(3)", "Pi", "Pi()", "Pi(-2)", "Pi(two)", "Golomb", "Golomb()", "Golomb(b)", "Golomb(-5)", "ExpGolomb", "ExpGolomb()", "Expgolomb(2)", "ExpGolomb(k)", "Rice", "Rice()",
                "Rice(1.5)", "Rice(0x10)", "Rice( 3)", "Rice(3 )", "Gamma(3)", "Delta(1)", "Omega(0)", "Unary(1)", "VByteLe(2)", "VByteBe(7)", "Gamma()", "Unary()", "(3)", "()", "3", "Zeta3", "Zeta[3]", "Zeta{3}",
                "Sigma(3)", "Code(3)", "Zeta(340282366920938463463374607431768211456)", "Pi(18446744073709551616)",
            ]
            .into_iter()
            .map(String::from)
            .collect();
            for name in ["Zeta", "Pi", "Golomb", "ExpGolomb", "Rice"] {
                bad.push(format!("{}(+)", name));
                bad.push(format!("{}(--1)", name));
                bad.push(format!("{}(1e3)", name));
                bad.push(format!("{}(١)", name));
            }
            // text without an opening parenthesis has no parameter: only the six bare names are codes
            let all_names = ["Unary", "Gamma", "Delta", "Omega", "VByteBe", "VByteLe", "Zeta", "Pi", "Golomb", "ExpGolomb", "Rice"];
            for name in all_names {
                for suffix in [")", ")3", ")3)", "3", " 3", "]3", "))", ")0", ")18446744073709551616", "3)", " ", ")x", "\t3", ")3)3", ",3", ":3", "=3"] {
                    bad.push(format!("{}{}", name, suffix));
                }
            }
            // a name part (the text before the first opening parenthesis) that is not a code name
            for junk in ["Zeta)", ")Zeta", "Zeta ", "Zeta3", "ZetaK", "Pi)", "Golomb)", "Rice]", "ExpGolomb)", "Zeta)3", "3", ")", "Pi)2)", "Golomb)5", "Zeta,", "Zeta\u{0}"] {
                for tail in ["(3)", "(", "(3", "()", "(x)"] {
                    bad.push(format!("{}{}", junk, tail));
                }
            }
            // random texts of the same two classes
            let mut rng = Rng::derive(ctx.seed, 0xC16BAD);
            let pieces = ["Zeta", "Pi", "Golomb", "ExpGolomb", "Rice", "Gamma", "Delta", ")", ")", "3", "12", "0", " ", "]", "x", "-"];
            for _ in 0..ctx.pick(20, 3000, 30000) {
                let n = 1 + rng.below(4) as usize;
                let mut s = String::new();
                for _ in 0..n {
                    s.push_str(*rng.pick(&pieces[..]));
                }
                let bare = ["Unary", "Gamma", "Delta", "Omega", "VByteBe", "VByteLe"].contains(&s.as_str());
                if bare {
                    continue;
                }
                if rng.chance(1, 3) {
                    // give it a parenthesised parameter: the name part must then be one of the five
                    if ["Zeta", "Pi", "Golomb", "ExpGolomb", "Rice"].contains(&s.as_str()) {
                        continue;
                    }
                    s.push_str("(3)");
                }
                bad.push(s);
            }
            bad.sort();
            bad.dedup();
            for s in bad {
                rep.eval(1);
                rep.case(&("malformed", s.clone()));
                let r = guard(|| Ok(s.parse::<Codes>().map_err(|e| e.to_string())));
                match r {
                    Out::Ok(Err(_)) => {}
                    Out::Ok(Ok(c)) => rep.violation(
                        &format!("malformed|accepted|{}", if s.contains('(') { "with-parameter" } else { "bare" }),
                        || format!("malformed text {:?} was parsed as {:?} instead of being rejected", s, c),
                        || format!("clause=malformed text={}", s.replace(' ', "_")),
                    ),
                    o => rep.violation(&format!("malformed|{}", o.class()), || format!("parsing {:?}: {}", s, o.show()), || format!("clause=malformed text={}", s.replace(' ', "_"))),
                }
            }
        }
        Item::Ids => {
            for id in (0..=50usize).chain([51, 52, 100, 1000, usize::MAX].into_iter()) {
                rep.eval(1);
                rep.case(&("id", id));
                let kvf = || format!("clause=id id={}", id);
                match guard(|| Codes::from_code_const(id).map_err(|e| e.to_string())) {
                    Out::Ok(c) => {
                        if id > 50 {
                            rep.violation("id|out-of-range-accepted", || format!("from_code_const({}) = {:?}", id, c), kvf);
                            continue;
                        }
                        match guard(|| c.to_code_const().map_err(|e| e.to_string())) {
                            Out::Ok(back) if back == id => {}
                            o => rep.violation("id|maps-back-differently", || format!("from_code_const({}) = {:?} whose to_code_const() is {}", id, c, o.show()), kvf),
                        }
                        for e in En::BOTH {
                            let vals = values_for(&c);
                            let a = codewords(c, e, &vals);
                            let b = const_codewords(id, e, &vals);
                            rep.eval(1);
                            if a != b || !a.is_ok() {
                                rep.violation("id|codewords-differ-from-ConstCode", || format!("from_code_const({}) = {:?} writes {} but ConstCode<{}> writes {}", id, c, a.clone().ok().map(|x| hex(&x)).unwrap_or_default(), id, b.clone().ok().map(|x| hex(&x)).unwrap_or_default()), kvf);
                            }
                        }
                    }
                    Out::Err(_) if id > 50 => {}
                    o => rep.violation("id|constant-rejected", || format!("from_code_const({}) failed: {}", id, o.show()), kvf),
                }
            }
            // every public constant name maps to a code that behaves as the named code
            for (name, id, code) in const_names() {
                let named = codes_of(code).unwrap();
                rep.eval(1);
                if let Out::Ok(c) = guard(|| Codes::from_code_const(id).map_err(|e| e.to_string())) {
                    for e in En::BOTH {
                        let vals = values_for(&named);
                        if codewords(c, e, &vals) != codewords(named, e, &vals) {
                            rep.violation("id|constant-name-mismatch", || format!("code_consts::{} = {} maps to {:?} whose codewords differ from {:?}", name, id, c, named), || format!("clause=id id={}", id));
                        }
                    }
                }
            }
            // to_code_const -> from_code_const keeps the codewords
            let mut params: Vec<usize> = (0..=70).collect();
            for i in 7..=40u32 {
                let p = 1usize << i;
                params.extend([p - 1, p, p + 1]);
            }
            for c in all_variants(&params) {
                if !writable(&c) {
                    continue;
                }
                rep.eval(1);
                if let Out::Ok(id) = guard(|| c.to_code_const().map_err(|e| e.to_string())) {
                    rep.case(&("to_const", format!("{:?}", c)));
                    let kvf = || format!("clause=toconst text={}", c.to_string());
                    match guard(|| Codes::from_code_const(id).map_err(|e| e.to_string())) {
                        Out::Ok(back) => {
                            for e in En::BOTH {
                                let vals = values_for(&c);
                                if codewords(c, e, &vals) != codewords(back, e, &vals) {
                                    rep.violation("to-const|codewords-change", || format!("{:?} -> id {} -> {:?}: codewords differ ({})", c, id, back, e.name()), kvf);
                                }
                            }
                        }
                        o => rep.violation("to-const|id-not-convertible-back", || format!("{:?}.to_code_const() = {} but from_code_const fails: {}", c, id, o.show()), kvf),
                    }
                }
            }
            rep.exhaustive("identifiers 0..=50 and out-of-range ones: from_code_const / to_code_const / ConstCode");
        }
        Item::Equality(i) => {
            // all pairs (a, b) with a's parameter = i: equal codes must have identical codewords
            let params: Vec<usize> = (0..=if ctx.tier == Tier::Thorough { 40 } else { 16 }).collect();
            let all = all_variants(&params);
            let firsts: Vec<Codes> = if i == 0 { all.iter().cloned().filter(|c| !matches!(c, Codes::Zeta { .. } | Codes::Pi { .. } | Codes::Golomb { .. } | Codes::ExpGolomb { .. } | Codes::Rice { .. }) || param_of(c) == 0).collect() } else { all.iter().cloned().filter(|c| param_of(c) == i && matches!(c, Codes::Zeta { .. } | Codes::Pi { .. } | Codes::Golomb { .. } | Codes::ExpGolomb { .. } | Codes::Rice { .. })).collect() };
            for a in &firsts {
                for b in &all {
                    rep.eval(1);
                    let eq = a == b;
                    if (b == a) != eq {
                        rep.violation("equality|asymmetric", || format!("{:?} == {:?} is {} but the converse is {}", a, b, eq, b == a), || format!("clause=eq a={} b={}", a, b));
                    }
                    if eq && writable(a) && writable(b) {
                        rep.case(&("eq", format!("{:?}", a), format!("{:?}", b)));
                        for e in En::BOTH {
                            let mut vals = values_for(a);
                            vals.retain(|v| values_for(b).contains(v));
                            let ca = codewords(*a, e, &vals);
                            let cb = codewords(*b, e, &vals);
                            rep.eval(1);
                            if ca != cb {
                                // find the first differing value
                                let w = vals.iter().find(|v| codewords(*a, e, &[**v]) != codewords(*b, e, &[**v]));
                                rep.violation(
                                    &format!("equality|codewords-differ|{}", e.name()),
                                    || format!("{:?} == {:?} but their {} codewords differ (first for value {:?})", a, b, e.name(), w),
                                    || format!("clause=eq a={} b={}", a, b),
                                );
                            }
                        }
                    }
                }
            }
        }
    });
    if ctx.tier != Tier::Tiny {
        rep.exhaustive("all pairs of variants x parameters 0..=16: equal implies identical codewords (40 values, both endiannesses)");
    }
    rep
}

fn param_of(c: &Codes) -> usize {
    match c {
        Codes::Zeta { k } | Codes::Pi { k } | Codes::ExpGolomb { k } => *k,
        Codes::Golomb { b } => *b,
        Codes::Rice { log2_b } => *log2_b,
        _ => 0,
    }
}

pub fn replay(_case: &str, rep: &mut Report) {
    // the whole sweep is small and deterministic: re-run it
    let ctx = Ctx { tier: Tier::Quick, seed: 0, threads: 1, procs: 1, variant: "replay".into(), shard: None };
    let r = run(&ctx);
    rep.merge(r);
    let _ = Kv::parse("");
}
