//! C09 — end of stream: data is never fabricated and the tail is never lost.
//!
//! Fault = truncation of a valid stream after every backend word.

use super::common::*;
use super::diag;
use crate::drivers::*;
use crate::model::*;
use crate::report::{hex, unhex, Kv, Report};
use crate::rng::Rng;
use crate::{par_items, Ctx, Tier};

#[derive(Clone, Debug)]
pub struct Item {
    pub op: ROp,
    /// value written (for codes / unary / fixed-width)
    pub value: u64,
}

#[derive(Clone, Debug)]
pub struct Case {
    pub cfg: RCfg,
    /// the complete stream (a whole number of words)
    pub image: Vec<u8>,
    pub items: Vec<ROp>,
    pub cut_words: usize,
    /// byte-stream backends only: cut inside a word, after this many bytes
    pub cut_bytes: Option<usize>,
}
impl Case {
    fn to_kv(&self) -> String {
        format!("cfg={} image={} cut={} cutbytes={} items={}", self.cfg.name(), hex(&self.image), self.cut_words, self.cut_bytes.map(|b| b as i64).unwrap_or(-1), rops_to_string(&self.items))
    }
    fn from_kv(s: &str) -> Case {
        let kv = Kv::parse(s);
        let cb = kv.opt("cutbytes").and_then(|s| s.parse::<i64>().ok()).filter(|b| *b >= 0).map(|b| b as usize);
        Case { cfg: parse_rcfg(kv.get("cfg")), image: unhex(kv.get("image")), cut_words: kv.usize("cut"), cut_bytes: cb, items: parse_rops(kv.get("items")) }
    }
}

fn item_name(op: &ROp) -> String {
    match op {
        ROp::Code(c) => format!("{}:{}", c.code().family(), c.name().split('(').next().unwrap_or("")),
        o => o.kind().to_string(),
    }
}

/// Read the items from the stream truncated after `cut_words` words.
pub fn check_case(c: &Case, rep: &mut Report) {
    let e = c.cfg.e;
    let zext = c.cfg.be.zext();
    let w = c.cfg.kind.word_bits();
    let wb = w / 8;
    let full = bits_of_image(&c.image, e);
    // a cut inside a word (byte streams): the bytes of the partial word exist, but the adapter
    // asks for whole words, so what lies in the partial word may or may not be readable
    // (not judged); nothing at or beyond the cut may ever be produced
    let (cut_bits, complete_bits, timg): (usize, usize, &[u8]) = match c.cut_bytes {
        Some(b) => (b * 8, (b / wb) * w, &c.image[..b]),
        None => (c.cut_words * w, c.cut_words * w, &c.image[..c.cut_words * wb]),
    };
    let data = &full[..cut_bits];
    let mut h = if c.cut_bytes.is_some() { make_reader_unaligned(c.cfg, timg) } else { make_reader(c.cfg, timg) };
    let mut pos = 0usize;
    let sigbase = format!("{}|{}|{}", e.name(), c.cfg.kind.name(), if zext { "zext" } else { "strict" });
    // for the zero-extended twin: the data followed by zeros
    let mut zdata: Vec<u8> = data.to_vec();
    zdata.resize(cut_bits + 4096, 0);
    for (i, op) in c.items.iter().enumerate() {
        // what the complete stream holds for this item
        let in_full: Option<(Option<u64>, usize)> = match op {
            ROp::Read(n) => get_bits(&full, pos, *n, e).map(|v| (Some(v), pos + n)),
            ROp::Peek(n) => get_bits(&full, pos, *n, e).map(|v| (Some(v), pos)),
            ROp::Unary => get_unary(&full, pos).map(|x| (Some(x), pos + x as usize + 1)),
            ROp::Code(cop) => decode(&full, pos, e, cop.code()).map(|(v, np)| (Some(v), np)),
            ROp::IoRead(n) => {
                if pos + 8 * n <= full.len() {
                    Some((None, pos + 8 * n))
                } else {
                    None
                }
            }
            // a skip needs (the existence of) every bit it passes over, and no bit after them
            ROp::Skip(n) => {
                if pos + n <= full.len() {
                    Some((None, pos + n))
                } else {
                    None
                }
            }
            _ => None,
        };
        let (fv, fend) = match in_full {
            Some(x) => x,
            None => break, // not an item of the complete stream: end of the trace
        };
        let need_end = match op {
            ROp::Peek(n) => pos + n,
            _ => fend,
        };
        let within = need_end <= complete_bits;
        let limbo = !within && need_end <= cut_bits; // touches the partial trailing word
        // zero-extended twin: what the data followed by zeros holds here (None: the item
        // does not terminate / is not decodable over zeros, so it is not issued at all -
        // the library documents that such reads may loop forever)
        let zexp: Option<(Option<u64>, usize)> = if zext && !within {
            match op {
                ROp::Read(n) => Some((Some(get_bits_zext(data, pos, *n, e)), pos + n)),
                ROp::Peek(n) => Some((Some(get_bits_zext(data, pos, *n, e)), pos)),
                ROp::Unary => None,
                ROp::Code(cop) => decode(&zdata, pos, e, cop.code()).filter(|(_, np)| *np + 64 < zdata.len()).map(|(v, np)| (Some(v), np)),
                ROp::IoRead(n) => Some((None, pos + 8 * n)),
                ROp::Skip(n) => Some((None, pos + n)),
                _ => None,
            }
        } else {
            None
        };
        if zext && !within && zexp.is_none() {
            return;
        }
        let got: Out<Option<u64>> = match op {
            ROp::Read(n) => guard(|| h.r.read_bits(*n).map(Some)),
            ROp::Peek(n) => guard(|| h.r.peek_bits(*n).map(Some)),
            ROp::Unary => guard(|| h.r.read_unary().map(Some)),
            ROp::Code(cop) => guard(|| h.r.read_code(*cop).map(Some)),
            ROp::IoRead(n) => guard(|| h.r.io_read(*n).unwrap().map(|_| None)),
            ROp::Skip(n) => guard(|| h.r.skip_bits(*n).map(|_| None)),
            _ => Out::Ok(None),
        };
        rep.eval(1);
        let rel = if within { (cut_bits - need_end) / w } else { 0 };
        rep.case(&(e, c.cfg.kind, c.cfg.be.name(), item_name(op), within, rel.min(3), (cut_bits as i64 - need_end as i64).signum()));
        let kvf = || c.to_kv();
        if limbo {
            // either outcome is acceptable, but a value, if produced, must be the right one
            let exp = if matches!(op, ROp::IoRead(_)) { None } else { fv };
            match &got {
                Out::Ok(v) if *v == exp => {
                    pos = fend;
                    continue;
                }
                Out::Err(_) => return,
                o => {
                    rep.violation(&format!("{}|{}|partial-word-{}", sigbase, item_name(op), if o.is_ok() { "wrong-value".to_string() } else { o.class() }), || format!("item #{} {} in the partial trailing word returned {} (expected {:?} or an error)", i, op.to_string(), o.show(), exp), kvf);
                    return;
                }
            }
        }
        if within {
            // the item lies entirely within the data: it must decode, on every backend
            let exp = if matches!(op, ROp::IoRead(_)) { None } else { fv };
            match &got {
                Out::Ok(v) if *v == exp => {}
                o => {
                    let class = if matches!(o, Out::Err(_)) { "tail-lost".to_string() } else if o.is_ok() { "wrong-value".to_string() } else { o.class() };
                    rep.violation(
                        &format!("{}|{}|{}", sigbase, item_name(op), class),
                        || format!("item #{} {} at bits {}..{} lies within the {} data bits (cut after word {}) but returned {} (expected {:?}) on {}", i, op.to_string(), pos, need_end, cut_bits, c.cut_words, o.show(), exp, c.cfg.be.name()),
                        kvf,
                    );
                    return;
                }
            }
            pos = fend;
            // the item succeeded: whatever look-ahead failed underneath, the reader must now stand
            // right after it (a position beyond the data, or short of it, loses or repeats the tail)
            if c.cut_bytes.is_none() {
                if let Some(p) = h.r.bit_pos() {
                    rep.eval(1);
                    if p != Ok(pos as u64) {
                        rep.violation(
                            &format!("{}|{}|position-after-item", sigbase, item_name(op)),
                            || format!("item #{} {} ending at bit {} of {} data bits decoded correctly but the reader then reports position {:?}", i, op.to_string(), pos, cut_bits, p),
                            kvf,
                        );
                        return;
                    }
                }
            }
            continue;
        }
        // the item needs a bit at or beyond the cut
        if !zext {
            // a skip yields no value, so a skip past the end that succeeds fabricates nothing (the
            // unbuffered reader just advances its index): either outcome is accepted, the trace ends
            if matches!(op, ROp::Skip(_)) {
                rep.count("skips_past_the_cut_not_judged", 1);
                return;
            }
            match &got {
                Out::Err(_) => {
                    rep.count("errors_observed_at_the_cut", 1);
                }
                o => {
                    let class = if o.is_ok() { "fabricated".to_string() } else { o.class() };
                    rep.violation(
                        &format!("{}|{}|{}", sigbase, item_name(op), class),
                        || format!("item #{} {} at bit {} needs bits up to {} but the data ends at bit {}: returned {} instead of an error on {}", i, op.to_string(), pos, need_end, cut_bits, o.show(), c.cfg.be.name()),
                        kvf,
                    );
                }
            }
            return; // reader state after an error is unspecified
        }
        // zero-extended: sees zeros beyond the end and never fails
        match zexp {
            None => return, // does not terminate / not decodable over zeros: not issued
            Some((zv, zend)) => {
                let exp = if matches!(op, ROp::IoRead(_)) { None } else { zv };
                match &got {
                    Out::Ok(v) if *v == exp => {
                        rep.count("zero_extension_reads_checked", 1);
                    }
                    o => {
                        let class = if matches!(o, Out::Err(_)) { "zext-failed".to_string() } else if o.is_ok() { "zext-wrong-value".to_string() } else { o.class() };
                        rep.violation(
                            &format!("{}|{}|{}", sigbase, item_name(op), class),
                            || format!("item #{} {} at bit {} over data ending at bit {} followed by zeros returned {} expected {:?}", i, op.to_string(), pos, cut_bits, o.show(), exp),
                            kvf,
                        );
                        return;
                    }
                }
                pos = zend;
            }
        }
    }
    rep.sample(|| c.to_kv());
}

fn code_values(code: Code, rng: &mut Rng) -> Vec<u64> {
    let mut v = vec![0, 1, 5, 62, 63, 64, 1000, 1023, 1024, 70000, 1 << 33];
    v.push(rng.log_uniform(40));
    v.retain(|x| *x <= code.max_value() && code_len(code, *x) <= 300);
    if v.is_empty() {
        v.push(0);
    }
    v
}

fn focus_ops(kind: RKind, rep: &mut Report, rng: &mut Rng, thorough: bool) -> Vec<(ROp, Option<u64>)> {
    // (operation, value to encode for it)
    let w = kind.word_bits();
    let mut v: Vec<(ROp, Option<u64>)> = vec![];
    for n in [1usize, 7, 8, w.min(64), (w + 1).min(64), 33, 64] {
        v.push((ROp::Read(n), None));
    }
    v.push((ROp::Peek(1), None));
    v.push((ROp::Peek(kind.peek_limit().min(9)), None));
    v.push((ROp::Peek(kind.peek_limit()), None));
    for x in [0u64, 1, 7, w as u64 - 1, w as u64, w as u64 + 3, 2 * w as u64 + 1] {
        v.push((ROp::Unary, Some(x)));
    }
    v.push((ROp::IoRead(3), None));
    // skips that stay inside the bit buffer, end on it, and run a whole number of words past it
    for n in [1usize, 7, w - 1, w, w + 1, 2 * w, 2 * w + 1, 3 * w, 3 * w + 5] {
        v.push((ROp::Skip(n), None));
    }
    let mut cops: Vec<CodeOp> = super::c07::code_ops_for(kind, rep);
    for k in [1u32, 4, 7] {
        cops.push(CodeOp::Std(Code::Zeta(k)));
        cops.push(CodeOp::Std(Code::Pi(k)));
        cops.push(CodeOp::Std(Code::Rice(k)));
        cops.push(CodeOp::Std(Code::ExpGolomb(k)));
    }
    cops.push(CodeOp::Std(Code::Golomb(3)));
    cops.push(CodeOp::Std(Code::Golomb(1000)));
    cops.push(CodeOp::Std(Code::MinBin(1 << 20)));
    for c in cops {
        let vals = code_values(c.code(), rng);
        let take = if thorough { vals.len() } else { 4 };
        for (i, val) in vals.iter().enumerate() {
            if i < take || (i + c.code().family().len()) % 3 == 0 {
                v.push((ROp::Code(c), Some(*val)));
            }
        }
    }
    v
}

fn push_item(bits: &mut Bits, e: En, op: &ROp, val: Option<u64>, rng: &mut Rng) {
    match op {
        ROp::Read(n) | ROp::Peek(n) => {
            let v = rng.next();
            push_bits(bits, e, v, *n);
        }
        ROp::Unary => push_unary(bits, val.unwrap_or(3)),
        ROp::Code(c) => push_code(bits, e, c.code(), val.unwrap_or(0)),
        ROp::IoRead(n) => {
            for _ in 0..*n {
                push_bits(bits, e, rng.next(), 8);
            }
        }
        ROp::Skip(n) => {
            let mut left = *n;
            while left > 0 {
                let k = left.min(64);
                push_bits(bits, e, rng.next(), k);
                left -= k;
            }
        }
        _ => {}
    }
}

pub fn run(ctx: &Ctx) -> Report {
    let mut work: Vec<(En, RKind)> = vec![];
    for e in En::BOTH {
        for k in RKind::ALL {
            work.push((e, k));
        }
    }
    par_items(ctx, "C09", &work, |&(e, kind), rep| {
        let w = kind.word_bits();
        let wb = w / 8;
        let mut rng = Rng::derive(ctx.seed, crate::report::hash_of(&(0xC09u64, e, kind)));
        let thorough = ctx.tier == Tier::Thorough;
        let focus = focus_ops(kind, rep, &mut rng, thorough);
        let focus: Vec<_> = if ctx.tier == Tier::Tiny { focus.into_iter().step_by(9).collect() } else { focus };
        let backends: Vec<RBackend> = vec![RBackend::RecS, RBackend::MemS, RBackend::WVec, RBackend::WSlice, RBackend::AdCursor, RBackend::AdBufReader, RBackend::RecZ, RBackend::MemZ];
        // ---- (1) enumerated layouts: each item ends d bits before a word boundary, after 0..2 filler words ----
        let ds: Vec<usize> = if thorough { (0..w).collect() } else { vec![0, 1, 2, w / 2, w - 2, w - 1] };
        for (fi, (op, val)) in focus.iter().enumerate() {
            for &d in &ds {
                for fill_words in 0..ctx.pick(1, 2, 3) {
                    let mut item_bits: Bits = vec![];
                    push_item(&mut item_bits, e, op, *val, &mut rng);
                    let len = item_bits.len();
                    // filler so that (filler + len) = -d (mod w)
                    let target_mod = (w - d % w) % w;
                    let filler = fill_words * w + (target_mod + 4 * w - len % w) % w;
                    let mut bits: Bits = vec![];
                    let mut items: Vec<ROp> = vec![];
                    let mut left = filler;
                    while left > 0 {
                        let n = left.min(1 + rng.below(64) as usize);
                        push_bits(&mut bits, e, rng.next(), n);
                        items.push(ROp::Read(n));
                        left -= n;
                    }
                    bits.extend_from_slice(&item_bits);
                    items.push(op.clone());
                    if let ROp::Peek(n) = op {
                        items.push(ROp::Read(*n));
                    }
                    // two trailing items
                    push_bits(&mut bits, e, rng.next(), 5);
                    items.push(ROp::Read(5));
                    push_code(&mut bits, e, Code::Gamma, 77);
                    items.push(ROp::Code(CodeOp::GammaP(false)));
                    let img = image(&bits, e, wb);
                    let nwords = img.len() / wb;
                    for cut in 0..=nwords {
                        for (bi, be) in backends.iter().enumerate() {
                            if !thorough && bi >= 2 && bi < 6 && (fi + d + cut + bi) % 2 != 0 {
                                continue;
                            }
                            check_case(&Case { cfg: RCfg { e, kind, be: *be }, image: img.clone(), items: items.clone(), cut_words: cut, cut_bytes: None }, rep);
                        }
                    }
                    // byte streams may also end inside a word
                    if wb > 1 {
                        for cb in 0..img.len() {
                            if cb % wb == 0 || (!thorough && (cb + fi + d) % 3 != 0) {
                                continue;
                            }
                            for be in [RBackend::AdCursor, RBackend::AdBufReader] {
                                check_case(&Case { cfg: RCfg { e, kind, be }, image: img.clone(), items: items.clone(), cut_words: cb / wb, cut_bytes: Some(cb) }, rep);
                            }
                        }
                    }
                }
            }
        }
        rep.exhaustive(&format!("{}/{}: every cut after a backend word, for {} item kinds ending {} distinct distances before a word boundary", e.name(), kind.name(), focus.len(), ds.len()));
        // ---- (2) random streams of items, every cut ----
        for _ in 0..ctx.pick(2, 800, 6000) {
            let mut bits: Bits = vec![];
            let mut items: Vec<ROp> = vec![];
            for _ in 0..(1 + rng.below(14)) {
                let (op, val) = rng.pick(&focus).clone();
                push_item(&mut bits, e, &op, val, &mut rng);
                if let ROp::Peek(n) = &op {
                    items.push(op.clone());
                    items.push(ROp::Read(*n));
                } else {
                    items.push(op);
                }
            }
            let img = image(&bits, e, wb);
            let nwords = img.len() / wb;
            for cut in 0..=nwords {
                for be in &backends {
                    check_case(&Case { cfg: RCfg { e, kind, be: *be }, image: img.clone(), items: items.clone(), cut_words: cut, cut_bytes: None }, rep);
                }
            }
        }
        // ---- (3) bulk copies that run past the end of a strict stream: the copy must fail, and the
        // reader must not hand out non-existent bits afterwards (shared with C08) ----
        if ctx.tier != Tier::Tiny {
            use super::c08::{check_overshoot, Path};
            let pres: Vec<Vec<ROp>> = vec![vec![], vec![ROp::Read(1)], vec![ROp::Read(w.min(64) - 1)], vec![ROp::Read(w.min(64))], vec![ROp::Read(3), ROp::Peek(kind.peek_limit().min(w))]];
            for nw in [2usize, 3, 5] {
                let img = super::readhist::random_image(&mut rng, crate::rng::Pattern::Ones, nw * wb, e);
                for pre in &pres {
                    for over in 1..=(w + 2) {
                        if !thorough && over > 4 && over < w - 2 && (over + nw) % 5 != 0 {
                            continue;
                        }
                        for (pi, path) in Path::ALL.iter().enumerate() {
                            let be = RBackend::STRICT[(over + pi + nw) % RBackend::STRICT.len()];
                            let ww = WWord::ALL[(over + pi) % 5];
                            check_overshoot("C09", RCfg { e, kind, be }, &img, pre, ww, over, *path, rep);
                        }
                    }
                }
            }
        }
        let _ = diag::describe;
    })
}

pub fn replay(case: &str, rep: &mut Report) {
    if case.starts_with("overshoot=") {
        return super::c08::replay(case, rep);
    }
    check_case(&Case::from_kv(case), rep);
}
