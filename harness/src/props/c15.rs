//! C15 — code statistics are exact, mergeable and thread-safe.

use crate::drivers::*;
use crate::model::{code_len, Code};
use crate::report::{Kv, Report};
use crate::rng::Rng;
use crate::{par_items, Ctx, Tier};
use dsi_bitstream::prelude::*;
use std::sync::atomic::{AtomicU64, AtomicUsize, Ordering};
use std::sync::Mutex;

/// model totals for a multiset, in the layout of CodesStats<Z,G,EG,R,P>
#[derive(Clone, Debug, PartialEq, Eq)]
pub struct Totals {
    pub total: u128,
    pub unary: u128,
    pub gamma: u128,
    pub delta: u128,
    pub omega: u128,
    pub vbyte: u128,
    pub zeta: Vec<u128>,
    pub golomb: Vec<u128>,
    pub exp_golomb: Vec<u128>,
    pub rice: Vec<u128>,
    pub pi: Vec<u128>,
}

pub fn model_totals(ms: &[(u64, u64)], z: usize, g: usize, eg: usize, r: usize, p: usize) -> Totals {
    let mut t = Totals { total: 0, unary: 0, gamma: 0, delta: 0, omega: 0, vbyte: 0, zeta: vec![0; z], golomb: vec![0; g], exp_golomb: vec![0; eg], rice: vec![0; r], pi: vec![0; p] };
    for &(n, c) in ms {
        let c = c as u128;
        t.total += c;
        t.unary += code_len(Code::Unary, n) * c;
        t.gamma += code_len(Code::Gamma, n) * c;
        t.delta += code_len(Code::Delta, n) * c;
        t.omega += code_len(Code::Omega, n) * c;
        t.vbyte += code_len(Code::VByteBe, n) * c;
        // documented index -> parameter mapping: zeta k = i+1, golomb b = i+1,
        // exp-golomb k = i, rice log2_b = i, pi k = i+2 (pi_0 = gamma, pi_1 = zeta_2)
        for i in 0..z {
            t.zeta[i] += code_len(Code::Zeta(i as u32 + 1), n) * c;
        }
        for i in 0..g {
            t.golomb[i] += code_len(Code::Golomb(i as u64 + 1), n) * c;
        }
        for i in 0..eg {
            t.exp_golomb[i] += code_len(Code::ExpGolomb(i as u32), n) * c;
        }
        for i in 0..r {
            t.rice[i] += code_len(Code::Rice(i as u32), n) * c;
        }
        for i in 0..p {
            t.pi[i] += code_len(Code::Pi(i as u32 + 2), n) * c;
        }
    }
    t
}

impl Totals {
    fn fits(&self) -> bool {
        let m = u64::MAX as u128 / 2;
        self.unary < m && self.golomb.iter().all(|x| *x < m) && self.rice.iter().all(|x| *x < m) && self.total < m
    }
    /// (tracked code, total) pairs
    fn tracked(&self) -> Vec<(Codes, u128)> {
        let mut v = vec![(Codes::Unary, self.unary), (Codes::Gamma, self.gamma), (Codes::Delta, self.delta), (Codes::Omega, self.omega), (Codes::VByteBe, self.vbyte), (Codes::VByteLe, self.vbyte)];
        for (i, x) in self.zeta.iter().enumerate() {
            v.push((Codes::Zeta { k: i + 1 }, *x));
        }
        for (i, x) in self.golomb.iter().enumerate() {
            v.push((Codes::Golomb { b: i + 1 }, *x));
        }
        for (i, x) in self.exp_golomb.iter().enumerate() {
            v.push((Codes::ExpGolomb { k: i }, *x));
        }
        for (i, x) in self.rice.iter().enumerate() {
            v.push((Codes::Rice { log2_b: i }, *x));
        }
        for (i, x) in self.pi.iter().enumerate() {
            v.push((Codes::Pi { k: i + 2 }, *x));
        }
        v
    }
}

fn observed<const Z: usize, const G: usize, const EG: usize, const RC: usize, const P: usize>(s: &CodesStats<Z, G, EG, RC, P>) -> Totals {
    Totals {
        total: s.total as u128,
        unary: s.unary as u128,
        gamma: s.gamma as u128,
        delta: s.delta as u128,
        omega: s.omega as u128,
        vbyte: s.vbyte as u128,
        zeta: s.zeta.iter().map(|x| *x as u128).collect(),
        golomb: s.golomb.iter().map(|x| *x as u128).collect(),
        exp_golomb: s.exp_golomb.iter().map(|x| *x as u128).collect(),
        rice: s.rice.iter().map(|x| *x as u128).collect(),
        pi: s.pi.iter().map(|x| *x as u128).collect(),
    }
}

fn first_diff(a: &Totals, b: &Totals) -> String {
    if a.total != b.total {
        return "total".into();
    }
    for (n, x, y) in [("unary", a.unary, b.unary), ("gamma", a.gamma, b.gamma), ("delta", a.delta, b.delta), ("omega", a.omega, b.omega), ("vbyte", a.vbyte, b.vbyte)] {
        if x != y {
            return n.into();
        }
    }
    for (n, x, y) in [("zeta", &a.zeta, &b.zeta), ("golomb", &a.golomb, &b.golomb), ("exp_golomb", &a.exp_golomb, &b.exp_golomb), ("rice", &a.rice, &b.rice), ("pi", &a.pi, &b.pi)] {
        if x != y {
            return n.into();
        }
    }
    "none".into()
}

fn ms_to_string(ms: &[(u64, u64)]) -> String {
    if ms.is_empty() {
        return "-".into();
    }
    ms.iter().map(|(n, c)| format!("{}x{}", n, c)).collect::<Vec<_>>().join(",")
}
fn parse_ms(s: &str) -> Vec<(u64, u64)> {
    if s == "-" {
        return vec![];
    }
    s.split(',').map(|t| { let (a, b) = t.split_once('x').unwrap(); (a.parse().unwrap(), b.parse().unwrap()) }).collect()
}

pub fn gen_multiset(rng: &mut Rng, max_items: usize) -> Vec<(u64, u64)> {
    let n = rng.below(max_items as u64 + 1) as usize;
    let style = rng.below(4);
    let mut ms = vec![];
    let mut budget: u128 = 1u128 << 61;
    for _ in 0..n {
        let v = match style {
            0 => rng.below(64),
            1 => rng.log_uniform(20),
            2 => *rng.pick(&crate::rng::boundary_values(1 << 40, 8)),
            _ => rng.log_uniform(56),
        };
        let c = if rng.chance(1, 3) { 1 + rng.log_uniform(12) } else { 1 };
        let cost = (v as u128 + 1) * c as u128;
        if cost > budget {
            continue;
        }
        budget -= cost;
        ms.push((v, c));
    }
    ms
}

/// sequential checks for one const-generic shape
fn check_shape<const Z: usize, const G: usize, const EG: usize, const RC: usize, const P: usize>(ms: &[(u64, u64)], split_seed: u64, rep: &mut Report) {
    let shape = format!("<{},{},{},{},{}>", Z, G, EG, RC, P);
    let kvf = || format!("shape={},{},{},{},{} seed={} ms={}", Z, G, EG, RC, P, split_seed, ms_to_string(ms));
    let exp = model_totals(ms, Z, G, EG, RC, P);
    if !exp.fits() {
        rep.count("multisets_skipped_totals_too_large", 1);
        return;
    }
    // (1) update_many vs the model
    let many = guard_v(|| {
        let mut s = CodesStats::<Z, G, EG, RC, P>::default();
        for &(n, c) in ms {
            let r = s.update_many(n, c);
            assert_eq!(r, n, "update_many must return its argument");
        }
        s
    });
    rep.eval(1);
    let many = match many {
        Out::Ok(s) => s,
        o => {
            rep.violation(&format!("update_many|{}", o.class()), || format!("update_many on {}: {}", ms_to_string(ms), match o { Out::Panic(p) => p, _ => String::new() }), kvf);
            return;
        }
    };
    let got = observed(&many);
    if got != exp {
        rep.violation(&format!("update_many|{}|{}", shape, first_diff(&got, &exp)), || format!("totals after update_many differ from the model in field {}: {:?} vs {:?}", first_diff(&got, &exp), got, exp), kvf);
        return;
    }
    // (2) one by one (when the multiplicities are small)
    let n_updates: u64 = ms.iter().map(|x| x.1).sum();
    if n_updates <= 3000 {
        let mut s = CodesStats::<Z, G, EG, RC, P>::default();
        for &(n, c) in ms {
            for _ in 0..c {
                s.update(n);
            }
        }
        rep.eval(1);
        if observed(&s) != exp {
            rep.violation(&format!("update|{}|{}", shape, first_diff(&observed(&s), &exp)), || format!("totals after one-by-one updates differ from the model: {:?} vs {:?}", observed(&s), exp), kvf);
        }
    }
    // (3) random split into 1..=8 parts, merged by add / += / + / sum
    let mut rng = Rng::new(split_seed);
    let k = 1 + rng.below(8) as usize;
    let mut parts: Vec<CodesStats<Z, G, EG, RC, P>> = vec![Default::default(); k];
    for &(n, c) in ms {
        // multiplicities are split too
        let mut left = c;
        while left > 0 {
            let take = if rng.chance(1, 2) { left } else { 1 + rng.below(left) };
            parts[rng.below(k as u64) as usize].update_many(n, take);
            left -= take;
        }
    }
    let mut by_add = CodesStats::<Z, G, EG, RC, P>::default();
    for p in &parts {
        by_add.add(p);
    }
    let mut by_add_assign = CodesStats::<Z, G, EG, RC, P>::default();
    for p in &parts {
        by_add_assign += *p;
    }
    let by_plus = parts.iter().fold(CodesStats::<Z, G, EG, RC, P>::default(), |a, b| a + *b);
    let by_sum: CodesStats<Z, G, EG, RC, P> = parts.iter().copied().sum();
    for (name, s) in [("add", by_add), ("add_assign", by_add_assign), ("plus", by_plus), ("sum", by_sum)] {
        rep.eval(1);
        if observed(&s) != exp {
            rep.violation(&format!("merge|{}|{}|{}", name, shape, first_diff(&observed(&s), &exp)), || format!("merging {} partial statistics with {} differs from observing the union: {:?} vs {:?}", k, name, observed(&s), exp), kvf);
        }
    }
    // (4) best code: minimum of the tracked totals, its total as cost, and the real encoded size
    let (code, cost) = many.best_code();
    let tracked = exp.tracked();
    let min = tracked.iter().map(|x| x.1).min().unwrap();
    rep.eval(1);
    let its_total = tracked.iter().find(|(c, _)| format!("{:?}", c) == format!("{:?}", code)).map(|x| x.1);
    if cost as u128 != min || its_total != Some(min) {
        rep.violation(
            &format!("best_code|{}", shape),
            || format!("best_code() = ({:?}, {}) but the minimum tracked total is {} and the model total of {:?} is {:?}", code, cost, min, code, its_total),
            kvf,
        );
    } else if cost < 200_000 {
        // encode the values with the reported code
        let mut words: Vec<u64> = vec![];
        let mut w = BufBitWriter::<BE, _>::new(MemWordWriterVec::new(&mut words));
        let mut bits = 0u64;
        let mut ok = true;
        for &(n, c) in ms {
            for _ in 0..c {
                match guard(|| code.write(&mut w, n).map_err(|e| e.to_string())) {
                    Out::Ok(l) => bits += l as u64,
                    _ => ok = false,
                }
            }
        }
        drop(w);
        rep.eval(1);
        if !ok || bits != cost {
            rep.violation(&format!("best_code|encoded-size|{}", shape), || format!("encoding the values with {:?} takes {} bits, reported cost {}", code, bits, cost), kvf);
        }
    }
    rep.case(&(Z, G, EG, RC, P, crate::report::hash_of(&ms.to_vec()), k));
    rep.sample(|| format!("{} shape {} -> best {:?} cost {}", ms_to_string(&ms[..ms.len().min(6)]), shape, code, cost));
}

/// through the dispatch wrapper, on reads and on writes
fn check_wrapper(ms: &[(u64, u64)], rep: &mut Report) {
    let exp = model_totals(ms, 10, 20, 10, 10, 10);
    if !exp.fits() || ms.iter().map(|x| x.1).sum::<u64>() > 2000 {
        return;
    }
    let kvf = || format!("shape=wrapper seed=0 ms={}", ms_to_string(ms));
    for code in [Codes::Gamma, Codes::Delta, Codes::Zeta { k: 3 }, Codes::VByteLe, Codes::Pi { k: 2 }] {
        // write side (dynamic and static dispatch alternate)
        let wr = CodesStatsWrapper::<Codes>::new(code);
        let mut words: Vec<u64> = vec![];
        {
            let mut w = BufBitWriter::<LE, _>::new(MemWordWriterVec::new(&mut words));
            let mut i = 0;
            for &(n, c) in ms {
                for _ in 0..c {
                    if code_len(Code::Gamma, n) > 128 {
                        continue;
                    }
                    let _ = if i % 2 == 0 { DynamicCodeWrite::write(&wr, &mut w, n) } else { StaticCodeWrite::write(&wr, &mut w, n) };
                    i += 1;
                }
            }
        }
        let got = observed(&wr.stats().lock().unwrap());
        rep.eval(1);
        if got != exp {
            rep.violation(&format!("wrapper|write|{}", first_diff(&got, &exp)), || format!("statistics gathered while writing with {:?} differ from the model: {:?} vs {:?}", code, got, exp), kvf);
            continue;
        }
        // read side
        let rd = CodesStatsWrapper::<Codes>::new(code);
        let mut r = BufBitReader::<LE, _>::new(MemWordReader::new(&words));
        let mut i = 0;
        for &(_, c) in ms {
            for _ in 0..c {
                let _ = if i % 2 == 0 { DynamicCodeRead::read(&rd, &mut r) } else { StaticCodeRead::read(&rd, &mut r) };
                i += 1;
            }
        }
        let (_, stats) = rd.into_inner();
        rep.eval(1);
        if observed(&stats) != exp {
            rep.violation(&format!("wrapper|read|{}", first_diff(&observed(&stats), &exp)), || format!("statistics gathered while reading with {:?} differ from the model: {:?} vs {:?}", code, observed(&stats), exp), kvf);
        }
    }
}

/// Operations that fail are not part of the data: a write into a full stream, a read past the end of a
/// strict one. The statistics must describe exactly the values whose operation returned Ok.
fn check_wrapper_failing(ms: &[(u64, u64)], rep: &mut Report) {
    let kvf = || format!("shape=failing seed=0 ms={}", ms_to_string(ms));
    let vals: Vec<u64> = ms.iter().flat_map(|&(n, c)| std::iter::repeat(n).take(c.min(6) as usize)).filter(|n| code_len(Code::Gamma, *n) <= 120).take(60).collect();
    if vals.is_empty() {
        return;
    }
    for (ci, code) in [Codes::Gamma, Codes::Delta, Codes::Zeta { k: 3 }].into_iter().enumerate() {
        for room in [0usize, 1, 3, 8] {
            // ---- writes into a slice with `room` bytes ----
            let wr = CodesStatsWrapper::<Codes>::new(code);
            let mut accepted: Vec<u64> = vec![];
            let mut failed = 0u64;
            {
                let mut w = BufBitWriter::<BE, _>::new(MemWordWriterSlice::new(vec![0u8; room]));
                for (i, &n) in vals.iter().enumerate() {
                    let r = if (i + ci) % 2 == 0 { guard_v(|| DynamicCodeWrite::write(&wr, &mut w, n).is_ok()) } else { guard_v(|| StaticCodeWrite::write(&wr, &mut w, n).is_ok()) };
                    match r {
                        Out::Ok(true) => accepted.push(n),
                        // the state of a bit writer after a failed write is not specified: stop here
                        Out::Ok(false) => {
                            failed += 1;
                            break;
                        }
                        _ => {
                            rep.violation("wrapper|failing-write|panic", || format!("write of {} through the statistics wrapper panicked", n), kvf);
                            let _ = guard_v(move || drop(w));
                            return;
                        }
                    }
                }
                // the writer's Drop flushes into the full slice and unwraps: not this property's business
                let _ = guard_v(move || drop(w));
            }
            let mut exp_ms: Vec<(u64, u64)> = vec![];
            for n in &accepted {
                exp_ms.push((*n, 1));
            }
            let exp = model_totals(&exp_ms, 10, 20, 10, 10, 10);
            let got = observed(&wr.stats().lock().unwrap());
            rep.eval(1);
            rep.count("failed_writes_through_the_wrapper", failed);
            if got != exp {
                rep.violation(
                    &format!("wrapper|failing-write|{}", first_diff(&got, &exp)),
                    || format!("{} of {} writes with {:?} into a {}-byte stream failed, yet the statistics are not those of the {} accepted values: {:?} vs {:?}", failed, vals.len(), code, room, accepted.len(), got, exp),
                    kvf,
                );
                return;
            }
            if failed > 0 {
                rep.case(&("failing-write", ci, room, accepted.len(), crate::report::hash_of(&vals)));
            }
        }
        // ---- reads from a strict stream holding only the first few codes ----
        let mut words: Vec<u8> = vec![];
        let keep = vals.len() / 2;
        {
            let plain = CodesStatsWrapper::<Codes>::new(code);
            let mut w = BufBitWriter::<BE, _>::new(MemWordWriterVec::new(&mut words));
            for &n in &vals[..keep] {
                let _ = DynamicCodeWrite::write(&plain, &mut w, n);
            }
        }
        let rd = CodesStatsWrapper::<Codes>::new(code);
        let mut r = BufBitReader::<BE, _>::new(MemWordReader::new_strict(&words[..]));
        let mut got_vals: Vec<u64> = vec![];
        let mut failed = 0u64;
        for i in 0..vals.len() + 2 {
            let res = if (i + ci) % 2 == 0 { guard_v(|| DynamicCodeRead::read(&rd, &mut r).ok()) } else { guard_v(|| StaticCodeRead::read(&rd, &mut r).ok()) };
            match res {
                Out::Ok(Some(v)) => got_vals.push(v),
                Out::Ok(None) => {
                    failed += 1;
                    break;
                }
                _ => {
                    rep.violation("wrapper|failing-read|panic", || "read through the statistics wrapper panicked".to_string(), kvf);
                    return;
                }
            }
        }
        let exp_ms: Vec<(u64, u64)> = got_vals.iter().map(|v| (*v, 1)).collect();
        let exp = model_totals(&exp_ms, 10, 20, 10, 10, 10);
        let (_, stats) = rd.into_inner();
        rep.eval(1);
        rep.count("failed_reads_through_the_wrapper", failed);
        if exp.fits() && observed(&stats) != exp {
            rep.violation(
                &format!("wrapper|failing-read|{}", first_diff(&observed(&stats), &exp)),
                || format!("{} reads with {:?} failed at the end of a strict stream, yet the statistics are not those of the {} values returned: {:?} vs {:?}", failed, code, got_vals.len(), observed(&stats), exp),
                kvf,
            );
        }
    }
}

/// a wrapped code that yields a pseudo-random number of times inside `write`,
/// then takes a ticket (the order of tickets approximates the order in which the
/// threads go on to update the shared statistics)
thread_local! {
    static THREAD_TAG: std::cell::Cell<u8> = const { std::cell::Cell::new(0) };
}

pub struct SlowGamma {
    pub ticket: AtomicUsize,
    pub order: Mutex<Vec<u8>>,
    pub spin: AtomicU64,
}
impl DynamicCodeWrite for SlowGamma {
    fn write<E: Endianness, CW: CodesWrite<E> + ?Sized>(&self, writer: &mut CW, value: u64) -> Result<usize, CW::Error> {
        let r = writer.write_gamma(value)?;
        let s = self.spin.fetch_add(0x9E37_79B9_7F4A_7C15, Ordering::Relaxed);
        for _ in 0..(s >> 61) {
            std::thread::yield_now();
        }
        self.ticket.fetch_add(1, Ordering::SeqCst);
        let tag = THREAD_TAG.with(|t| t.get());
        self.order.lock().unwrap().push(tag);
        Ok(r)
    }
}

impl DynamicCodeRead for SlowGamma {
    fn read<E: Endianness, CR: CodesRead<E> + ?Sized>(&self, reader: &mut CR) -> Result<u64, CR::Error> {
        let r = reader.read_gamma()?;
        let s = self.spin.fetch_add(0x9E37_79B9_7F4A_7C15, Ordering::Relaxed);
        for _ in 0..(s >> 61) {
            std::thread::yield_now();
        }
        self.ticket.fetch_add(1, Ordering::SeqCst);
        let tag = THREAD_TAG.with(|t| t.get());
        self.order.lock().unwrap().push(tag);
        Ok(r)
    }
}
impl<E: Endianness, CR: CodesRead<E> + ?Sized> StaticCodeRead<E, CR> for SlowGamma {
    fn read(&self, reader: &mut CR) -> Result<u64, CR::Error> {
        DynamicCodeRead::read(self, reader)
    }
}
impl<E: Endianness, CW: CodesWrite<E> + ?Sized> StaticCodeWrite<E, CW> for SlowGamma {
    fn write(&self, writer: &mut CW, value: u64) -> Result<usize, CW::Error> {
        DynamicCodeWrite::write(self, writer, value)
    }
}

/// mode: 0 = dynamic write, 1 = static write, 2 = dynamic read, 3 = static read, 4 = mixed
pub fn check_threads(nthreads: usize, per_thread: usize, seed: u64, rep: &mut Report) {
    for mode in 0..5u8 {
        check_threads_mode(nthreads, per_thread, seed, mode, rep);
    }
}

pub fn check_threads_mode(nthreads: usize, per_thread: usize, seed: u64, mode: u8, rep: &mut Report) {
    let wrapper = CodesStatsWrapper::<SlowGamma>::new(SlowGamma { ticket: AtomicUsize::new(0), order: Mutex::new(vec![]), spin: AtomicU64::new(seed) });
    // per-thread logs, written at the call boundary
    let logs: Vec<Vec<u64>> = std::thread::scope(|s| {
        let handles: Vec<_> = (0..nthreads)
            .map(|t| {
                let wrapper = &wrapper;
                s.spawn(move || {
                    THREAD_TAG.with(|x| x.set(t as u8));
                    let mut rng = Rng::derive(seed, t as u64 + 1);
                    let vals: Vec<u64> = (0..per_thread).map(|_| rng.log_uniform(24)).collect();
                    // a private stream holding this thread's values, for the read modes
                    let mut pre: Vec<u64> = vec![];
                    {
                        let mut w = BufBitWriter::<BE, _>::new(MemWordWriterVec::new(&mut pre));
                        for v in &vals {
                            w.write_gamma(*v).unwrap();
                        }
                    }
                    let mut r = BufBitReader::<BE, _>::new(MemWordReader::new(&pre));
                    let mut words: Vec<u64> = vec![];
                    let mut w = BufBitWriter::<BE, _>::new(MemWordWriterVec::new(&mut words));
                    let mut log = vec![];
                    for (i, v) in vals.iter().enumerate() {
                        // call event recorded before invoking, completed after the reply
                        log.push(*v);
                        let m = if mode == 4 { ((i + t) % 4) as u8 } else { mode };
                        match m {
                            0 => {
                                DynamicCodeWrite::write(wrapper, &mut w, *v).unwrap();
                                if mode == 4 {
                                    r.read_gamma().unwrap();
                                }
                            }
                            1 => {
                                StaticCodeWrite::write(wrapper, &mut w, *v).unwrap();
                                if mode == 4 {
                                    r.read_gamma().unwrap();
                                }
                            }
                            2 => assert_eq!(DynamicCodeRead::read(wrapper, &mut r).unwrap(), *v),
                            _ => assert_eq!(StaticCodeRead::read(wrapper, &mut r).unwrap(), *v),
                        }
                    }
                    log
                })
            })
            .collect();
        handles.into_iter().map(|h| h.join().expect("stat thread panicked")).collect()
    });
    let mut ms: Vec<(u64, u64)> = vec![];
    for l in &logs {
        for v in l {
            ms.push((*v, 1));
        }
    }
    let exp = model_totals(&ms, 10, 20, 10, 10, 10);
    let poisoned = wrapper.stats().is_poisoned();
    let (inner, stats) = wrapper.into_inner();
    let got = observed(&stats);
    rep.eval(1);
    let order = inner.order.lock().unwrap().clone();
    rep.cover("thread_orders", crate::report::hash_of(&order));
    rep.case(&("threads", nthreads, mode, crate::report::hash_of(&order)));
    rep.count("threaded_updates", ms.len() as u64);
    if got != exp || poisoned || inner.ticket.load(Ordering::SeqCst) != ms.len() {
        rep.violation(
            &format!("threads|{}|{}|{}", ["dyn-write", "static-write", "dyn-read", "static-read", "mixed"][mode as usize], nthreads, if poisoned { "poisoned".into() } else { first_diff(&got, &exp) }),
            || format!("{} threads x {} updates through one wrapper: totals {:?} but the union of the per-thread logs gives {:?} (order of completions: {:?})", nthreads, per_thread, got, exp, &order[..order.len().min(40)]),
            || format!("shape=threads seed={} ms={}x{}", seed, nthreads, per_thread),
        );
    }
}

#[derive(Clone, Copy, Debug, PartialEq, Eq, Hash)]
enum Item {
    Seq(u64),
    Threads(u64),
}

pub fn run(ctx: &Ctx) -> Report {
    let mut work = vec![];
    for i in 0..ctx.pick(6, 64, 256) {
        work.push(Item::Seq(i));
    }
    for i in 0..ctx.pick(10, 16, 64) {
        work.push(Item::Threads(i));
    }
    let mut rep = par_items(ctx, "C15", &work, |item, rep| match *item {
        Item::Seq(i) => {
            let mut rng = Rng::derive(ctx.seed, 0xC15 + i);
            for _ in 0..ctx.pick(2, 40, 200) {
                let ms = gen_multiset(&mut rng, ctx.pick(6, 40, 120));
                let ss = rng.next();
                check_shape::<10, 20, 10, 10, 10>(&ms, ss, rep);
                check_shape::<3, 5, 2, 4, 1>(&ms, ss, rep);
                check_shape::<12, 3, 7, 2, 5>(&ms, ss, rep);
                check_shape::<1, 1, 1, 1, 1>(&ms, ss, rep);
                check_wrapper(&ms, rep);
                check_wrapper_failing(&ms, rep);
            }
        }
        Item::Threads(i) => {
            for rpt in 0..ctx.pick(2, 20, 60) {
                let nt = [2usize, 4, 8][(i as usize + rpt) % 3];
                check_threads(nt, ctx.pick(6, 60, 200), ctx.seed ^ (i * 1000 + rpt as u64), rep);
            }
        }
    });
    let orders = rep.cover.get("thread_orders").map(|s| s.len()).unwrap_or(0);
    rep.note(format!("{} distinct completion orders of the threaded workload observed", orders));
    if ctx.tier != Tier::Tiny && orders < 10 {
        rep.inconclusive(format!("only {} distinct thread interleavings observed", orders));
    }
    rep
}

pub fn replay(case: &str, rep: &mut Report) {
    let kv = Kv::parse(case);
    let shape = kv.get("shape");
    if shape == "threads" {
        let (a, b) = kv.get("ms").split_once('x').unwrap();
        for _ in 0..20 {
            check_threads(a.parse().unwrap(), b.parse().unwrap(), kv.u64("seed"), rep);
        }
        return;
    }
    let ms = parse_ms(kv.get("ms"));
    let seed = kv.u64("seed");
    if shape == "failing" {
        check_wrapper_failing(&ms, rep);
        return;
    }
    if shape == "wrapper" {
        check_wrapper(&ms, rep);
        return;
    }
    check_shape::<10, 20, 10, 10, 10>(&ms, seed, rep);
    check_shape::<3, 5, 2, 4, 1>(&ms, seed, rep);
    check_shape::<12, 3, 7, 2, 5>(&ms, seed, rep);
    check_shape::<1, 1, 1, 1, 1>(&ms, seed, rep);
}
