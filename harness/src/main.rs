//! dsiverif: runtime monitors for the properties C01-C20 of dsi-bitstream-rs.
//!
//!   dsiverif run <PROP> [--tier quick|thorough|tiny] [--seed N] [--variant NAME] [--out FILE] [--threads N]
//!   dsiverif replay <PROP> <FILE.json>
//!   dsiverif selftest <VECTORS.txt>
//!   dsiverif probe-one <reader-kind>       (child process of the diagnostics probe)
//!   dsiverif digest [--out FILE]           (C19 transcript digest)
//!
//! Exit codes: 0 = held on everything explored, 1 = violation(s) observed
//! (reported in the result file; the aggregator decides about known
//! findings), 2 = inconclusive / harness error.

pub mod backends;
pub mod drivers;
pub mod model;
pub mod props;
pub mod report;
pub mod rng;
pub mod selftest;

use report::Report;
use std::time::Instant;

#[derive(Clone, Copy, Debug, PartialEq, Eq)]
pub enum Tier {
    /// very small workloads for Miri
    Tiny,
    Quick,
    Thorough,
}

#[derive(Clone, Debug)]
pub struct Ctx {
    pub tier: Tier,
    pub seed: u64,
    /// worker threads inside one process
    pub threads: usize,
    /// worker processes (1 = stay in this process)
    pub procs: usize,
    pub variant: String,
    /// Some((index, count, output file)) in a shard process
    pub shard: Option<(usize, usize, String)>,
}

impl Ctx {
    pub fn pick<T>(&self, tiny: T, quick: T, thorough: T) -> T {
        match self.tier {
            Tier::Tiny => tiny,
            Tier::Quick => quick,
            Tier::Thorough => thorough,
        }
    }
    pub fn tier_name(&self) -> &'static str {
        match self.tier {
            Tier::Tiny => "tiny",
            Tier::Quick => "quick",
            Tier::Thorough => "thorough",
        }
    }
}

/// Run `f` over the items in parallel; every worker has its own Report (library
/// objects are never shared between workers).
///
/// Workers are *processes* when `ctx.procs > 1`: the harness re-executes itself
/// with VERIF_SHARD=i/n, each child handles the items with index = i (mod n) and
/// ships its report back. (Threads would serialise on the process-wide stderr
/// lock: constructing a u8-word reader prints the library's look-ahead
/// diagnostic, and the workloads construct millions of readers.) A monitor must
/// call par_items exactly once: a shard process exits at the end of it.
// ---------------------------------------------------------------------------------------------
// Hang watchdog on a logical clock
// ---------------------------------------------------------------------------------------------

/// Count of monitored operations started or finished (every guarded library call, every evaluation).
pub static TICKS: std::sync::atomic::AtomicU64 = std::sync::atomic::AtomicU64::new(0);
#[inline(always)]
pub fn tick() {
    TICKS.fetch_add(1, std::sync::atomic::Ordering::Relaxed);
}
/// Exit code of a worker whose library call did not return.
pub const HANG_EXIT: i32 = 86;

/// CPU seconds (user + system) consumed by this process so far.
fn cpu_secs() -> Option<f64> {
    let s = std::fs::read_to_string("/proc/self/stat").ok()?;
    let rest = &s[s.rfind(')')? + 2..];
    let f: Vec<&str> = rest.split_whitespace().collect();
    let ut: f64 = f.get(11)?.parse().ok()?;
    let st: f64 = f.get(12)?.parse().ok()?;
    Some((ut + st) / 100.0)
}

/// A library call that loops without touching its backend escapes the call budgets. The verdict is
/// still taken on a logical clock, not on wall time: the process is declared hung when it has burnt
/// `limit` CPU-seconds without completing a single monitored operation (each of which costs
/// microseconds). A loaded machine slows the wall clock, not this one; an idle process (a parent
/// waiting for its workers) accumulates no CPU time at all.
fn start_hang_watchdog(limit: f64) {
    if cfg!(miri) || std::env::var_os("VERIF_NO_WATCHDOG").is_some() {
        return;
    }
    std::thread::spawn(move || {
        let mut last = TICKS.load(std::sync::atomic::Ordering::Relaxed);
        let mut cpu_at_last = cpu_secs().unwrap_or(0.0);
        loop {
            std::thread::sleep(std::time::Duration::from_millis(500));
            let t = TICKS.load(std::sync::atomic::Ordering::Relaxed);
            let c = match cpu_secs() {
                Some(c) => c,
                None => return,
            };
            if t != last {
                last = t;
                cpu_at_last = c;
            } else if c - cpu_at_last > limit {
                println!("[dsiverif] HANG: {:.0} CPU-seconds without completing a monitored operation (after {} operations)", c - cpu_at_last, t);
                std::process::exit(HANG_EXIT);
            }
        }
    });
}

pub fn par_items<T: Sync, F>(ctx: &Ctx, prop: &str, items: &[T], f: F) -> Report
where
    F: Fn(&T, &mut Report) + Sync,
{
    if let Some((i, n, out)) = &ctx.shard {
        // child: my share of the items, on my threads
        let mine: Vec<&T> = items.iter().enumerate().filter(|(k, _)| k % n == *i).map(|(_, t)| t).collect();
        let rep = par_threads(ctx.threads, prop, &mine, |t, r| f(*t, r));
        std::fs::write(out, rep.to_bytes()).expect("cannot write shard report");
        std::process::exit(0);
    }
    if ctx.procs <= 1 || items.len() <= 1 {
        let refs: Vec<&T> = items.iter().collect();
        return par_threads(ctx.threads, prop, &refs, |t, r| f(*t, r));
    }
    let n = ctx.procs.min(items.len());
    let exe = std::env::current_exe().expect("current_exe");
    let args: Vec<String> = std::env::args().skip(1).collect();
    let dir = std::env::var("VERIF_SHARD_DIR").unwrap_or_else(|_| std::env::temp_dir().to_string_lossy().to_string());
    let tag = format!("{}-{}-{}", prop, std::process::id(), ctx.variant);
    let mut children = vec![];
    for i in 0..n {
        let out = format!("{}/shard-{}-{}.bin", dir, tag, i);
        let child = std::process::Command::new(&exe)
            .args(&args)
            .env("VERIF_SHARD", format!("{}/{}", i, n))
            .env("VERIF_SHARD_OUT", &out)
            .stdout(std::process::Stdio::null())
            .spawn()
            .expect("cannot spawn shard process");
        children.push((child, out));
    }
    let mut total = Report::new(prop);
    for (i, (mut child, out)) in children.into_iter().enumerate() {
        let status = child.wait().expect("wait");
        match (status.success(), std::fs::read(&out)) {
            (true, Ok(bytes)) => total.merge(Report::from_bytes(&bytes)),
            _ if status.code() == Some(HANG_EXIT) => {
                let (tier, seed) = (ctx.tier_name().to_string(), ctx.seed);
                total.violation(
                    "did-not-return",
                    || format!("worker {}/{} burnt {} CPU-seconds inside one library call (or one step of the monitor) without returning: an operation of this property does not terminate", i, n, HANG_LIMIT),
                    || format!("hang=1 tier={} seed={} shard={}/{}", tier, seed, i, n),
                );
            }
            _ if crash_signal(&status).is_some() => {
                // the worker was killed by a fault signal: a panic inside a destructor that runs during
                // unwinding (the process aborts), a stack overflow, an illegal access. Never the harness's
                // own panics (those exit with a code), never the OOM killer (SIGKILL stays inconclusive).
                let sig = crash_signal(&status).unwrap();
                let (tier, seed) = (ctx.tier_name().to_string(), ctx.seed);
                total.violation(
                    &format!("crashed|signal-{}", sig),
                    || format!("worker {}/{} was killed by signal {} ({}) inside a library call: the process aborted instead of returning or unwinding", i, n, sig, match sig { 6 => "SIGABRT: panic while unwinding / abort", 11 => "SIGSEGV", 7 => "SIGBUS", 4 => "SIGILL", _ => "SIGFPE" }),
                    || format!("hang=1 tier={} seed={} shard={}/{}", tier, seed, i, n),
                );
            }
            _ => total.inconclusive(format!("shard {}/{} failed ({:?})", i, n, status.code())),
        }
        let _ = std::fs::remove_file(&out);
    }
    total
}

fn par_threads<T: Sync, F>(threads: usize, prop: &str, items: &[T], f: F) -> Report
where
    F: Fn(&T, &mut Report) + Sync,
{
    let nthreads = threads.max(1).min(items.len().max(1));
    let mut total = Report::new(prop);
    if nthreads <= 1 {
        for (i, it) in items.iter().enumerate() {
            let t0 = std::time::Instant::now();
            f(it, &mut total);
            if std::env::var_os("VERIF_PROFILE").is_some() && t0.elapsed().as_secs_f64() > 0.5 {
                eprintln!("[profile] item {} took {:.2}s", i, t0.elapsed().as_secs_f64());
            }
        }
        return total;
    }
    let next = std::sync::atomic::AtomicUsize::new(0);
    let reports: Vec<Report> = std::thread::scope(|s| {
        let handles: Vec<_> = (0..nthreads)
            .map(|_| {
                s.spawn(|| {
                    drivers::install_panic_hook();
                    let mut rep = Report::new(prop);
                    loop {
                        let i = next.fetch_add(1, std::sync::atomic::Ordering::Relaxed);
                        if i >= items.len() {
                            break;
                        }
                        f(&items[i], &mut rep);
                    }
                    rep
                })
            })
            .collect();
        handles.into_iter().map(|h| h.join().expect("worker thread died")).collect()
    });
    for r in reports {
        total.merge(r);
    }
    total
}

pub const HANG_LIMIT: f64 = 60.0;

fn crash_signal(status: &std::process::ExitStatus) -> Option<i32> {
    use std::os::unix::process::ExitStatusExt;
    match status.signal() {
        Some(s) if [4, 6, 7, 8, 11].contains(&s) => Some(s),
        _ => None,
    }
}

fn arg_value(args: &[String], name: &str) -> Option<String> {
    args.iter().position(|a| a == name).and_then(|i| args.get(i + 1).cloned())
}

fn main() {
    let args: Vec<String> = std::env::args().collect();
    drivers::install_panic_hook();
    if args.len() < 2 {
        eprintln!("usage: dsiverif run|replay|selftest|probe-one|digest ...");
        std::process::exit(2);
    }
    let tier = match arg_value(&args, "--tier").as_deref() {
        Some("thorough") => Tier::Thorough,
        Some("tiny") => Tier::Tiny,
        _ => Tier::Quick,
    };
    let seed: u64 = arg_value(&args, "--seed").and_then(|s| s.parse().ok()).unwrap_or(0);
    let threads: usize = arg_value(&args, "--threads")
        .and_then(|s| s.parse().ok())
        .unwrap_or_else(|| std::thread::available_parallelism().map(|n| n.get()).unwrap_or(4));
    let variant = arg_value(&args, "--variant").unwrap_or_else(|| "r-def".to_string());
    // a shard is named on the command line (--shard i/n --shard-out FILE; under Miri the
    // environment seen by the program is the one recorded at build time) or in the environment
    let shard = arg_value(&args, "--shard").or_else(|| std::env::var("VERIF_SHARD").ok()).and_then(|s| {
        let (a, b) = s.split_once('/')?;
        Some((a.parse().ok()?, b.parse().ok()?, arg_value(&args, "--shard-out").or_else(|| std::env::var("VERIF_SHARD_OUT").ok())?))
    });
    // default: one single-threaded process per core (no shared stderr lock); Miri cannot spawn
    let procs: usize = arg_value(&args, "--procs").and_then(|s| s.parse().ok()).unwrap_or(if tier == Tier::Tiny { 1 } else { threads });
    let threads = if shard.is_some() { 1 } else if procs > 1 { 1 } else { threads };
    let ctx = Ctx { tier, seed, threads, procs, variant: variant.clone(), shard };

    if tier == Tier::Tiny {
        props::diag::assume_instead_of_probing();
    }
    match args[1].as_str() {
        "run" => {
            let prop = args.get(2).expect("property id").clone();
            start_hang_watchdog(HANG_LIMIT);
            let t0 = Instant::now();
            let rep = match props::run(&prop, &ctx) {
                Some(r) => r,
                None => {
                    println!("INCONCLUSIVE property={} reason=unknown-property", prop);
                    std::process::exit(2);
                }
            };
            let wall = t0.elapsed().as_secs_f64();
            let json = rep.to_json(ctx.tier_name(), seed, &variant, wall);
            if let Some(out) = arg_value(&args, "--out") {
                std::fs::write(&out, &json).expect("cannot write result file");
            } else {
                println!("{}", json);
            }
            println!(
                "[dsiverif] {} {} {} seed={} evaluations={} distinct={} violations={} inconclusive={} wall={:.1}s",
                prop,
                ctx.tier_name(),
                variant,
                seed,
                rep.evaluations,
                rep.distinct.len(),
                rep.violations.len(),
                rep.inconclusive.len(),
                wall
            );
            for v in rep.violations.values() {
                println!("[dsiverif]   violation {} x{}: {}", v.sig, v.count, v.what);
            }
            for i in &rep.inconclusive {
                println!("[dsiverif]   inconclusive: {}", i);
            }
            if !rep.violations.is_empty() {
                std::process::exit(1);
            }
            if !rep.inconclusive.is_empty() {
                std::process::exit(2);
            }
        }
        "replay" => {
            let prop = args.get(2).expect("property id").clone();
            let file = args.get(3).expect("replay file");
            let text = std::fs::read_to_string(file).expect("cannot read replay file");
            let case = report::json_get_str(&text, "case").expect("replay file has no case");
            let mut rep = Report::new(&prop);
            if case.starts_with("hang=1") {
                // re-run the worker that did not return, in a child process, and see whether it returns now
                let kv = report::Kv::parse(&case);
                let exe = std::env::current_exe().expect("current_exe");
                let out = std::env::temp_dir().join(format!("dsiverif-hang-replay-{}.bin", std::process::id()));
                let st = std::process::Command::new(&exe)
                    .args(["run", &prop, "--tier", kv.get("tier"), "--seed", kv.get("seed"), "--shard", kv.get("shard"), "--shard-out"])
                    .arg(&out)
                    .stdout(std::process::Stdio::null())
                    .stderr(std::process::Stdio::null())
                    .status()
                    .expect("cannot spawn worker");
                let _ = std::fs::remove_file(&out);
                if let Some(sig) = crash_signal(&st) {
                    println!("[dsiverif] replay {}: worker {} was killed by signal {} again", prop, kv.get("shard"), sig);
                    println!("[dsiverif]   violation crashed|signal-{}: worker {} aborted inside a library call", sig, kv.get("shard"));
                    std::process::exit(1);
                }
                if st.code() == Some(HANG_EXIT) {
                    println!("[dsiverif] replay {}: worker {} did not return again", prop, kv.get("shard"));
                    println!("[dsiverif]   violation did-not-return: worker {} burnt {} CPU-seconds in one operation", kv.get("shard"), HANG_LIMIT);
                    std::process::exit(1);
                }
                println!("[dsiverif] replay {}: worker {} returned (exit {:?})", prop, kv.get("shard"), st.code());
                return;
            }
            start_hang_watchdog(HANG_LIMIT);
            if !props::replay(&prop, &case, &mut rep) {
                println!("INCONCLUSIVE property={} reason=no-replay-support", prop);
                std::process::exit(2);
            }
            println!("[dsiverif] replay {}: evaluations={} violations={}", prop, rep.evaluations, rep.violations.len());
            for v in rep.violations.values() {
                println!("[dsiverif]   violation {}: {}", v.sig, v.what);
            }
            if !rep.violations.is_empty() {
                std::process::exit(1);
            }
        }
        "selftest" => {
            let vectors = args.get(2).cloned();
            match selftest::run(vectors.as_deref()) {
                Ok(n) => println!("[dsiverif] selftest ok: {} checks", n),
                Err(e) => {
                    println!("[dsiverif] SELFTEST FAILED: {}", e);
                    std::process::exit(2);
                }
            }
        }
        "merge" => {
            // dsiverif merge <PROP> <out.json> <shard.bin>...   (used by the Miri / sanitizer stages)
            let prop = args.get(2).expect("property id").clone();
            let out = args.get(3).expect("output file").clone();
            let mut total = Report::new(&prop);
            let mut n = 0;
            for f in &args[4..] {
                if f.starts_with("--") {
                    break;
                }
                match std::fs::read(f) {
                    Ok(b) => {
                        total.merge(Report::from_bytes(&b));
                        n += 1;
                    }
                    Err(_) => total.inconclusive(format!("missing shard report {}", f)),
                }
            }
            let json = total.to_json(ctx.tier_name(), seed, &variant, 0.0);
            std::fs::write(&out, &json).expect("cannot write merged result");
            println!("[dsiverif] merged {} shard reports of {}: evaluations={} violations={} inconclusive={}", n, prop, total.evaluations, total.violations.len(), total.inconclusive.len());
        }
        "probe-one" => {
            props::diag::probe_one(args.get(2).expect("reader kind"));
        }
        "digest" => {
            let t0 = Instant::now();
            let text = props::c19::digest(&ctx);
            if let Some(out) = arg_value(&args, "--out") {
                std::fs::write(&out, &text).expect("cannot write digest file");
            } else {
                println!("{}", text);
            }
            println!("[dsiverif] digest {} wall={:.1}s", variant, t0.elapsed().as_secs_f64());
        }
        other => {
            eprintln!("unknown command {}", other);
            std::process::exit(2);
        }
    }
}
