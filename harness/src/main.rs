//! dsiverif: runtime monitors for the properties C01-C20 of dsi-bitstream-rs.
//!
//!   dsiverif run <PROP> [--tier quick|thorough|tiny] [--seed N] [--variant NAME] [--out FILE] [--threads N]
//!   dsiverif replay <PROP> <FILE.json>
//!   dsiverif selftest <VECTORS.txt>
//!   dsiverif probe-one <reader-kind>       (child process of the diagnostics probe)
//!   dsiverif digest [--out FILE]           (C19 transcript digest)
//!
//! Exit codes: 0 = held on everything explored, 1 = violation(s) observed
//! (reported in the result file; the aggregator decides about known
//! findings), 2 = inconclusive / harness error.

pub mod backends;
pub mod drivers;
pub mod model;
pub mod props;
pub mod report;
pub mod rng;
pub mod selftest;

use report::Report;
use std::time::Instant;

#[derive(Clone, Copy, Debug, PartialEq, Eq)]
pub enum Tier {
    /// very small workloads for Miri
    Tiny,
    Quick,
    Thorough,
}

#[derive(Clone, Debug)]
pub struct Ctx {
    pub tier: Tier,
    pub seed: u64,
    pub threads: usize,
    pub variant: String,
}

impl Ctx {
    pub fn pick<T>(&self, tiny: T, quick: T, thorough: T) -> T {
        match self.tier {
            Tier::Tiny => tiny,
            Tier::Quick => quick,
            Tier::Thorough => thorough,
        }
    }
    pub fn tier_name(&self) -> &'static str {
        match self.tier {
            Tier::Tiny => "tiny",
            Tier::Quick => "quick",
            Tier::Thorough => "thorough",
        }
    }
}

/// Run `f` over the items on `ctx.threads` worker threads; every worker has
/// its own Report (library objects are never shared between threads).
pub fn par_items<T: Sync, F>(ctx: &Ctx, prop: &str, items: &[T], f: F) -> Report
where
    F: Fn(&T, &mut Report) + Sync,
{
    let nthreads = ctx.threads.max(1).min(items.len().max(1));
    let mut total = Report::new(prop);
    if nthreads <= 1 {
        for it in items {
            f(it, &mut total);
        }
        return total;
    }
    let next = std::sync::atomic::AtomicUsize::new(0);
    let reports: Vec<Report> = std::thread::scope(|s| {
        let handles: Vec<_> = (0..nthreads)
            .map(|_| {
                s.spawn(|| {
                    drivers::install_panic_hook();
                    let mut rep = Report::new(prop);
                    loop {
                        let i = next.fetch_add(1, std::sync::atomic::Ordering::Relaxed);
                        if i >= items.len() {
                            break;
                        }
                        f(&items[i], &mut rep);
                    }
                    rep
                })
            })
            .collect();
        handles.into_iter().map(|h| h.join().expect("worker thread died")).collect()
    });
    for r in reports {
        total.merge(r);
    }
    total
}

fn arg_value(args: &[String], name: &str) -> Option<String> {
    args.iter().position(|a| a == name).and_then(|i| args.get(i + 1).cloned())
}

fn main() {
    let args: Vec<String> = std::env::args().collect();
    drivers::install_panic_hook();
    if args.len() < 2 {
        eprintln!("usage: dsiverif run|replay|selftest|probe-one|digest ...");
        std::process::exit(2);
    }
    let tier = match arg_value(&args, "--tier").as_deref() {
        Some("thorough") => Tier::Thorough,
        Some("tiny") => Tier::Tiny,
        _ => Tier::Quick,
    };
    let seed: u64 = arg_value(&args, "--seed").and_then(|s| s.parse().ok()).unwrap_or(0);
    let threads: usize = arg_value(&args, "--threads")
        .and_then(|s| s.parse().ok())
        .unwrap_or_else(|| std::thread::available_parallelism().map(|n| n.get()).unwrap_or(4));
    let variant = arg_value(&args, "--variant").unwrap_or_else(|| "r-def".to_string());
    let ctx = Ctx { tier, seed, threads, variant: variant.clone() };

    match args[1].as_str() {
        "run" => {
            let prop = args.get(2).expect("property id").clone();
            let t0 = Instant::now();
            let rep = match props::run(&prop, &ctx) {
                Some(r) => r,
                None => {
                    println!("INCONCLUSIVE property={} reason=unknown-property", prop);
                    std::process::exit(2);
                }
            };
            let wall = t0.elapsed().as_secs_f64();
            let json = rep.to_json(ctx.tier_name(), seed, &variant, wall);
            if let Some(out) = arg_value(&args, "--out") {
                std::fs::write(&out, &json).expect("cannot write result file");
            } else {
                println!("{}", json);
            }
            println!(
                "[dsiverif] {} {} {} seed={} evaluations={} distinct={} violations={} inconclusive={} wall={:.1}s",
                prop,
                ctx.tier_name(),
                variant,
                seed,
                rep.evaluations,
                rep.distinct.len(),
                rep.violations.len(),
                rep.inconclusive.len(),
                wall
            );
            for v in rep.violations.values() {
                println!("[dsiverif]   violation {} x{}: {}", v.sig, v.count, v.what);
            }
            for i in &rep.inconclusive {
                println!("[dsiverif]   inconclusive: {}", i);
            }
            if !rep.violations.is_empty() {
                std::process::exit(1);
            }
            if !rep.inconclusive.is_empty() {
                std::process::exit(2);
            }
        }
        "replay" => {
            let prop = args.get(2).expect("property id").clone();
            let file = args.get(3).expect("replay file");
            let text = std::fs::read_to_string(file).expect("cannot read replay file");
            let case = report::json_get_str(&text, "case").expect("replay file has no case");
            let mut rep = Report::new(&prop);
            if !props::replay(&prop, &case, &mut rep) {
                println!("INCONCLUSIVE property={} reason=no-replay-support", prop);
                std::process::exit(2);
            }
            println!("[dsiverif] replay {}: evaluations={} violations={}", prop, rep.evaluations, rep.violations.len());
            for v in rep.violations.values() {
                println!("[dsiverif]   violation {}: {}", v.sig, v.what);
            }
            if !rep.violations.is_empty() {
                std::process::exit(1);
            }
        }
        "selftest" => {
            let vectors = args.get(2).cloned();
            match selftest::run(vectors.as_deref()) {
                Ok(n) => println!("[dsiverif] selftest ok: {} checks", n),
                Err(e) => {
                    println!("[dsiverif] SELFTEST FAILED: {}", e);
                    std::process::exit(2);
                }
            }
        }
        "probe-one" => {
            props::diag::probe_one(args.get(2).expect("reader kind"));
        }
        "digest" => {
            let t0 = Instant::now();
            let text = props::c19::digest(&ctx);
            if let Some(out) = arg_value(&args, "--out") {
                std::fs::write(&out, &text).expect("cannot write digest file");
            } else {
                println!("{}", text);
            }
            println!("[dsiverif] digest {} wall={:.1}s", variant, t0.elapsed().as_secs_f64());
        }
        other => {
            eprintln!("unknown command {}", other);
            std::process::exit(2);
        }
    }
}
